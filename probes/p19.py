import random, collections, networkx as nx
import gcmpy.covers.eecc as E
from gcmpy import EECC
log=[]
def ch(seq):
    log.append(len(seq)); return seq[0]
E.choice=ch
rng=random.Random(4); prod=collections.Counter(); nch=collections.Counter()
for it in range(400):
    n=rng.randint(4,10); g=nx.gnp_random_graph(n,rng.choice([.3,.5,.7,.9]),seed=rng.randint(0,10**9))
    if g.number_of_edges()==0: continue
    for m0 in (2,3,4):
        G=EECC()
        for e in g.edges(): G.add_edge(e)
        G.set_max_clique_size(m0); del log[:]
        G.get_EECC()
        p=1
        for c in log: p*=c
        nch[len(log)]+=1
        prod['<=1' if p<=1 else '<=8' if p<=8 else '<=64' if p<=64 else '<=1000' if p<=1000 else 'big']+=1
print(sorted(nch.items())); print(prod)
