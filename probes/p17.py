import random, itertools, collections, sys, time
import networkx as nx
from gcmpy import *
import gcmpy.tools.markov_chain_monte_carlo_rewiring as M
exec(open('p9.py').read().split("names=['2-clique','3-clique']; sizes=[2,3]")[0].split("mode=sys.argv")[0])
T_=NetworkNames.TOPOLOGY; I_=NetworkNames.MOTIF_IDS; J_=NetworkNames.JOINT_DEGREE
class Stop(BaseException): pass
names=['2-clique','3-clique']; sizes=[2,3]; classes=[(2,1),(1,2),(3,1)]
tot=collections.Counter()
for seed in range(8):
    rng=random.Random(seed); random.seed(seed)
    G=build_clean(rng,classes,[18,18,18],sizes,names,1.0)
    T=target(G,names,0.3)
    present={t:set() for t in names}
    for u,v,d in G.edges(data=True):
        i=names.index(d[T_])
        a=list(G.nodes[u][J_]); a[i]-=1; b=list(G.nodes[v][J_]); b[i]-=1
        present[d[T_]]|={tuple(a)+tuple(b),tuple(b)+tuple(a)}
    forb={t:set() for t in names}
    for t in names:
        for k in sorted(T[t]):
            h=len(k)//2; kr=k[h:]+k[:h]
            if k<=kr and k not in present[t] and rng.random()<0.6:
                z=rng.random()<.5
                for kk in {k,kr}:
                    if z: del T[t][kk]
                    else: T[t][kk]=0.0
                    forb[t].add(kk)
    net=Network(); net.G=G
    tm=JointExcessJointDegreeMatrices({ToolsNames.EJKS:T,ToolsNames.EDGE_NAMES:names})
    cnt=[0]
    orig=M.MarkovChainMonteCarloRewiring.__dict__.get('_o') or M.MarkovChainMonteCarloRewiring.swap_condition
    M.MarkovChainMonteCarloRewiring._o=orig
    cap={}
    def w(self,G,*a):
        cap['G']=G; cnt[0]+=1
        if cnt[0]>60000: raise Stop()
        return orig(self,G,*a)
    M.MarkovChainMonteCarloRewiring.swap_condition=w
    m=MarkovChainMonteCarloRewiring({ToolsNames.NETWORK:net,ToolsNames.EJKS:tm,ToolsNames.CONVERGENCE_LIMIT:300,ToolsNames.SEARCH_LIMIT:20})
    try:
        H=m.rewire(); tot['returned']+=1
    except Stop:
        H=cap['G']; tot['stopped']+=1
    except M.ErrorMarkovChainMonteCarloRewiring as ex:
        H=cap['G']; tot['raised']+=1
        zero=[(u,v,d) for u,v,d in H.edges(data=True) if T[d[T_]].get(tuple(x-(j==names.index(d[T_])) for j,x in enumerate(H.nodes[u][J_]))+tuple(x-(j==names.index(d[T_])) for j,x in enumerate(H.nodes[v][J_])),0)<=0]
        print('zero-weight edges now',len(zero),[ (u,v,G.has_edge(u,v)) for u,v,d in zero][:5])
    bad=0; new=0
    for u,v,d in H.edges(data=True):
        if not G.has_edge(u,v):
            new+=1
            i=names.index(d[T_]); a=list(H.nodes[u][J_]); a[i]-=1; b=list(H.nodes[v][J_]); b[i]-=1
            k=tuple(a)+tuple(b)
            if T[d[T_]].get(k,0)<=0: bad+=1
    tot['new']+=new; tot['bad']+=bad; tot['forb']+=sum(map(len,forb.values())); tot['props']+=cnt[0]
print(dict(tot))
