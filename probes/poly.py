from fractions import Fraction
import numbers
class P:
    __slots__=('t',)
    def __init__(self,t=None): self.t=t or {}
    @staticmethod
    def var(name): return P({((name,1),):Fraction(1)})
    @staticmethod
    def const(c):
        if isinstance(c,P): return c
        if isinstance(c,float): c=Fraction(c)
        c=Fraction(c); return P({():c}) if c else P()
    def __add__(s,o):
        o=P.const(o); t=dict(s.t)
        for m,c in o.t.items():
            v=t.get(m,0)+c
            if v: t[m]=v
            else: t.pop(m,None)
        return P(t)
    __radd__=__add__
    def __neg__(s): return P({m:-c for m,c in s.t.items()})
    def __sub__(s,o): return s+(-P.const(o))
    def __rsub__(s,o): return P.const(o)+(-s)
    def __mul__(s,o):
        o=P.const(o); t={}
        for m1,c1 in s.t.items():
            d1=dict(m1)
            for m2,c2 in o.t.items():
                d=dict(d1)
                for v,e in m2: d[v]=d.get(v,0)+e
                m=tuple(sorted(d.items())); v=t.get(m,0)+c1*c2
                if v: t[m]=v
                else: t.pop(m,None)
        return P(t)
    __rmul__=__mul__
    def __pow__(s,n):
        if isinstance(n,float):
            assert n.is_integer(); n=int(n)
        r=P.const(1); b=s
        while n:
            if n&1: r=r*b
            b=b*b; n>>=1
        return r
    def __eq__(s,o): return s.t==P.const(o).t
    def __repr__(s): return ' + '.join(f"{c}*{dict(m)}" for m,c in sorted(s.t.items())) or '0'
