import random, itertools, collections, math, copy
from fractions import Fraction as Fr
import networkx as nx
from gcmpy import *
import gcmpy.joint_degree.joint_degree as JD
rng=random.Random(12)
bad=collections.Counter()
def note(k,info=None):
    bad[k]+=1
    if bad[k]<=2: print('!!',k,info)
# ---- C05
class Tap:
    def __init__(s,seed): s.r=random.Random(seed); s.raw=None
    def choices(s,population,weights,k): s.raw=s.r.choices(population=population,weights=weights,k=k); return list(s.raw) if False else s.raw
    def randrange(s,a,b): return s.r.randrange(a,b)
for it in range(3000):
    T=rng.randint(1,4); nk=rng.randint(1,8)
    keys=list({tuple(rng.randint(0,5) for _ in range(T)) for _ in range(nk)})
    jdd={k:rng.uniform(1e-3,1e3) for k in keys}
    sizes=[rng.choice([1,2,3,4,5]) for _ in range(T)]
    N=rng.choice([1,2,3,5,10,50])
    tap=Tap(it); JD.random=tap
    ld=JointDegreeManual({JointDegreeNames.JDD:jdd,JointDegreeNames.MOTIF_SIZES:sizes})
    raw_holder=[]
    orig=tap.choices
    def ch(population,weights,k):
        r=orig(population,weights,k); raw_holder.append(list(r)); return r
    tap.choices=ch
    out=ld.sample_jds_from_jdd(N)
    raw=raw_holder[0]
    if len(out)!=N: note('c05 len')
    if any(not isinstance(x,tuple) for x in out): note('c05 type')
    for i,s in enumerate(sizes):
        so=sum(x[i] for x in out); sr=sum(x[i] for x in raw)
        if so%s: note('c05 div')
        if so-sr!=(s-sr%s)%s: note('c05 minimal',(so,sr,s))
    if any(o[i]<r[i] for o,r in zip(out,raw) for i in range(T)): note('c05 removal')
    try: JointDegreeEmpirical({JointDegreeNames.MOTIF_SIZES:sizes,JointDegreeNames.JDS:out})
    except Exception as e: note('c05 unusable',e)
JD.random=random
print('c05',dict(bad))
# ---- C07
for it in range(1500):
    T=rng.randint(1,4); lo=rng.randint(0,3); hi=lo+rng.randint(1,9)
    tab={k:rng.uniform(.01,1) for k in range(0,hi+2)}
    probs=[rng.random() for _ in range(T)]; sp=sum(probs); probs=[p/sp for p in probs]
    if rng.random()<.2: probs=[1.0 if i==0 else 0.0 for i in range(T)]
    P={JointDegreeNames.FP:lambda k:tab[k],JointDegreeNames.PROBS:probs,JointDegreeNames.MOTIF_SIZES:list(range(2,2+T)),JointDegreeNames.LOW_HIGH_DEGREE_BOUND:(lo,hi)}
    def splits(k,T):
        if T==1: yield (k,); return
        for i in range(k//T+1):
            for r in splits(k-i*T,T-1): yield r+(i,)
    def law(ks,split_at=None):
        exp={}
        for k in ks:
            if split_at is None or k==split_at:
                ss=list(splits(k,T)); w=[math.prod(probs[i]**((i+1)*n[i]) for i in range(T)) for n in ss]; tw=sum(w)
                if tw==0: return None
                for n,x in zip(ss,w): exp[n]=exp.get(n,0)+tab[k]*x/tw
            else:
                n=(k,)+(0,)*(T-1); exp[n]=tab[k]
        z=sum(exp.values()); return {n:v/z for n,v in exp.items()}
    exp=law(range(lo,hi))
    if exp is not None:
        try:
            got=JointDegreeSplitDegree(P).jdd
            if set(got)!=set(exp) or any(abs(got[n]-exp[n])>1e-9 for n in exp): note('c07 split',(lo,hi,T))
        except ZeroDivisionError: pass
    tk=rng.randint(lo-1,hi+1); P[JointDegreeNames.TARGET_K]=tk
    exp=law(range(lo,hi),split_at=tk if lo<=tk<hi else -99)
    if exp is not None:
        got=JointDegreeDelta(P).jdd
        if set(got)!=set(exp) or any(abs(got[n]-exp[n])>1e-9 for n in exp): note('c07 delta',(lo,hi,T,tk))
print('c07',dict(bad))
# ---- C08
for it in range(1500):
    base=rng.choice([0,1]); n=rng.randint(2,15)
    sizes_allowed=rng.choice([[2,4],[2,5],[3,5,6],[4],[2,3,4,5,6,7],[2,3],[2,6,7]])
    cover=[]
    for _ in range(rng.randint(1,12)):
        s=rng.choice([x for x in sizes_allowed if x<=n] or [2])
        cover.append([v+base for v in rng.sample(range(n),s)])
    used=sorted({v for c in cover for v in c})
    if used!=list(range(base,base+len(used))):  # make contiguous
        mp={v:i+base for i,v in enumerate(used)}; cover=[[mp[v] for v in c] for c in cover]; used=sorted(mp.values())
    ld=JointDegreeCover({JointDegreeNames.COVER:cover})
    ss=sorted({len(c) for c in cover})
    if ld.motif_sizes!=ss: note('c08 sizes')
    per=[tuple(sum(1 for c in cover if len(c)==s and v in c) for s in ss) for v in used]
    exp={k:c/len(used) for k,c in collections.Counter(per).items()}
    if set(ld.jdd)!=set(exp) or any(abs(ld.jdd[k]-exp[k])>1e-12 for k in exp): note('c08 jdd',(cover,))
    ld2=JointDegreeDistribution.load_joint_degree({JointDegreeNames.JOINT_DEGREE_TYPE:'cover',JointDegreeNames.COVER:cover})
    if ld2.jdd!=ld.jdd: note('c08 dispatch')
print('c08',dict(bad))
# ---- C06
for it in range(800):
    T=rng.randint(1,3); bounds=[(a:=rng.randint(0,3),a+rng.randint(1,4)) for _ in range(T)]
    tabs=[{k:rng.uniform(.05,1) for k in range(0,10)} for _ in range(T)]
    fps=[(lambda t:(lambda k:t[k]))(t) for t in tabs]
    ld=JointDegreeMarginal({JointDegreeNames.MOTIF_SIZES:[2]*T,JointDegreeNames.ARR_FP:fps,JointDegreeNames.LOW_HIGH_DEGREE_BOUND:bounds})
    S=[sorted({k[i] for k in ld.jdd}) for i in range(T)]
    for i,(a,b) in enumerate(bounds):
        if not(set(range(a,b))<=set(S[i])<=set(range(a,b+1))): note('c06 marg support')
    if set(ld.jdd)!=set(itertools.product(*S)): note('c06 marg product')
    z=sum(math.prod(tabs[i][k[i]] for i in range(T)) for k in ld.jdd)
    if any(abs(ld.jdd[k]-math.prod(tabs[i][k[i]] for i in range(T))/z)>1e-12 for k in ld.jdd): note('c06 marg law')
    f=lambda jd:1.0/(1+sum(x*x for x in jd))
    lf=JointDegreeFunction({JointDegreeNames.MOTIF_SIZES:[2]*T,JointDegreeNames.FP:f,JointDegreeNames.LOW_HIGH_DEGREE_BOUND:bounds})
    box=set(itertools.product(*[range(a,b+1) for a,b in bounds]))
    if set(lf.jdd)!=box or any(lf.jdd[k]!=f(k) for k in box): note('c06 func')
    lf2=JointDegreeDistribution.load_joint_degree({JointDegreeNames.JOINT_DEGREE_TYPE:'function',JointDegreeNames.MOTIF_SIZES:[2]*T,JointDegreeNames.FP:f,JointDegreeNames.LOW_HIGH_DEGREE_BOUND:bounds})
    if lf2.jdd!=lf.jdd: note('c06 dispatch func')
    obs=[tuple(rng.randint(0,2) for _ in range(T)) for _ in range(rng.randint(1,60))]
    le=JointDegreeEmpirical({JointDegreeNames.MOTIF_SIZES:[2]*T,JointDegreeNames.JDS:obs})
    if any(abs(le.jdd[k]-c/len(obs))>1e-15 for k,c in collections.Counter(obs).items()) or len(le.jdd)!=len(set(obs)): note('c06 emp')
print('c06',dict(bad))
