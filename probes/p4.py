import random, itertools, collections, sys, signal
import networkx as nx
from gcmpy import *
class TO(Exception): pass
def h(*a): raise TO()
signal.signal(signal.SIGALRM,h)
def check(edges,m0,seed):
    random.seed(seed)
    G=EECC()
    for e in edges: G.add_edge(e)
    G.set_max_clique_size(m0)
    ref=nx.Graph(edges)
    signal.alarm(20)
    try:
        cov=G.get_EECC()
    except TO:
        return 'timeout'
    except Exception as e:
        return 'raise '+type(e).__name__+str(e)[:50]
    finally:
        signal.alarm(0)
    cnt=collections.Counter()
    for c in cov:
        if not (2<=len(c)<=m0): return 'size'
        if len(set(c))!=len(c): return 'dupvertex'
        for a,b in itertools.combinations(c,2):
            if not ref.has_edge(a,b): return 'notclique'
            cnt[frozenset((a,b))]+=1
    if any(v>1 for v in cnt.values()): return 'double'
    if len(cnt)!=ref.number_of_edges(): return 'uncovered'
    if G.has_edges(): return 'edgesleft'
    # intact maximal cliques
    mc=[frozenset(c) for c in nx.find_cliques(ref)]
    cs=set(frozenset(c) for c in cov)
    for c in mc:
        if len(c)<=m0 and len(c)>=2:
            es=[frozenset(p) for p in itertools.combinations(c,2)]
            shared=any(o!=c and any(e<=o for e in es) for o in mc)
            if not shared and c not in cs: return 'intact'
    return 'ok'
res=collections.Counter()
rng=random.Random(1)
wit={}
for it in range(300):
    n=rng.randint(4,16); p=rng.choice([.2,.35,.5,.7,.9])
    g=nx.gnp_random_graph(n,p,seed=rng.randint(0,10**9))
    edges=list(g.edges())
    if not edges: continue
    for m0 in (2,3,4,5,7):
        r=check(edges,m0,it)
        res[(m0,r)]+=1
        if r!='ok' and (m0,r) not in wit: wit[(m0,r)]=(edges,it)
for k in sorted(res): print(k,res[k])
for k,v in wit.items(): print(k,v)
