import random, itertools, math
import networkx as nx
from gcmpy import *
from gcmpy.message_passing.equations.automated_equation import AutomatedEquation
from gcmpy.message_passing.equations.chordless_cycle_equation import chordless_cycle_equation
def exact(G, root, phi, u):
    es=list(G.edges()); tot=0.0
    for mask in range(1<<len(es)):
        H=nx.Graph(); H.add_nodes_from(G)
        k=0
        for i,e in enumerate(es):
            if mask>>i&1: H.add_edge(*e); k+=1
        comp=nx.node_connected_component(H,root)
        pr=phi**k*(1-phi)**(len(es)-k)
        for v in comp:
            if v!=root: pr*=u[v]
        tot+=pr
    return tot
rng=random.Random(3)
AE=AutomatedEquation()
worst=0
atlas=[g for g in nx.graph_atlas_g() if 2<=g.number_of_nodes()<=5 and nx.is_connected(g)]
print(len(atlas))
for idx,g in enumerate(atlas):
    for root in g.nodes():
        phi=rng.random(); u={v:rng.random() for v in g}
        H=nx.Graph(g); H.name=f"a{idx}"
        nx.set_node_attributes(H,u,'u')
        a=AE.automated_equation(H,phi,root); b=exact(g,root,phi,u)
        worst=max(worst,abs(a-b))
print('AE worst',worst)
w=0
for tau in range(2,7):
    g=nx.complete_graph(tau); phi=rng.random(); u={v:rng.random() for v in g}
    a=clique_equation(tau,phi,[u[v] for v in range(1,tau)]); b=exact(g,0,phi,u); w=max(w,abs(a-b))
print('clique worst',w)
w=0
for n in range(3,9):
    g=nx.cycle_graph(n); phi=rng.random(); uu=rng.random()
    a=chordless_cycle_equation(n,uu,phi); b=exact(g,0,phi,{v:uu for v in g}); w=max(w,abs(a-b))
print('cycle worst',w)
from gcmpy.message_passing.number_connected_graphs import Q,QQ
print([(n,k,Q(n,k),QQ(n,k)) for n in range(1,6) for k in range(0,n*(n-1)//2+1) if Q(n,k)!=QQ(n,k)])
