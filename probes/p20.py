import random, itertools, collections, math, copy
from fractions import Fraction as Fr
import networkx as nx
from gcmpy import *
rng=random.Random(11)
bad=collections.Counter()
def note(k,info=None):
    bad[k]+=1
    if bad[k]<=2: print('!!',k,info)
# ---------- C01/C02 fast + custom
def rec(fn,log,k):
    def w(vs):
        r=fn(vs); log.append((k,tuple(vs),r)); return r
    return w
def bare(vs): return (vs[0],vs[1])
def twoedge(vs): return ((vs[0],vs[1]),(vs[1],vs[2]))
def star(vs): return [(vs[0],v) for v in vs[1:]]
menu=[(2,clique_motif),(3,clique_motif),(4,clique_motif),(3,cycle_motif),(4,cycle_motif),(5,cycle_motif),(4,diamond_motif),(3,star),(4,star)]
def norm(r):
    if len(r)==2 and not isinstance(r[0],(tuple,list)): return [tuple(r)]
    return [tuple(e) for e in r]
for it in range(1500):
    T=rng.randint(1,3); tops=[rng.choice(menu) for _ in range(T)]
    N=rng.randint(1,25)
    jds=[[rng.choice([0,0,1,1,2,3]) for _ in range(T)] for _ in range(N)]
    for k,(s,_) in enumerate(tops):
        while sum(j[k] for j in jds)%s: jds[rng.randrange(N)][k]+=1
    jds=[tuple(j) for j in jds]
    log=[]
    p={GCMAlgorithmNames.MOTIF_SIZES:[s for s,_ in tops],GCMAlgorithmNames.EDGE_NAMES:[f't{k}' for k in range(T)],GCMAlgorithmNames.BUILD_FUNCTIONS:[rec(f,log,k) for k,(s,f) in enumerate(tops)]}
    random.seed(it)
    kind=rng.choice(['fast','network'])
    p[GCMAlgorithmNames.GCM_TYPE]=kind
    alg=GCMAlgorithmMain.load_gcm_algorithm(p) if rng.random()<.5 else (GCMAlgorithmFast(p) if kind=='fast' else GCMAlgorithmNetwork(p))
    j0=copy.deepcopy(jds)
    out=alg.random_clustered_graph(jds)
    if jds!=j0: note('jds mutated')
    for k,(s,_) in enumerate(tops):
        calls=[c for c in log if c[0]==k]
        if len(calls)!=sum(j[k] for j in jds)//s: note('ncalls')
        if collections.Counter(itertools.chain(*[c[1] for c in calls]))!=collections.Counter({v:j[k] for v,j in enumerate(jds) if j[k]}): note('conserve')
        if any(len(c[1])!=s for c in calls): note('size')
    if kind=='fast':
        el=out
        if not(len(el.edge_list)==len(el.topologies)==len(el.motif_id)): note('cols')
        by=collections.defaultdict(list)
        for e,t,m in zip(el.edge_list,el.topologies,el.motif_id): by[m].append((tuple(sorted(e)),t))
        want=sorted(sorted((tuple(sorted(e)),f't{c[0]}') for e in norm(c[2])) for c in log)
        if sorted(sorted(v) for v in by.values())!=want: note('groups')
        if list(el.joint_degrees)!=list(jds): note('jds carried')
        # C04
        net=EdgeListToNetwork.convert(el)
        if set(net.G.nodes())!=set(range(N)): note('c04 nodes')
        if any(tuple(net.G.nodes[v][NetworkNames.JOINT_DEGREE])!=jds[v] for v in range(N)): note('c04 jd')
        pairs=collections.defaultdict(list)
        for e,t,m in zip(el.edge_list,el.topologies,el.motif_id): pairs[frozenset(e)].append((t,m))
        if set(map(frozenset,net.G.edges()))!=set(pairs): note('c04 edges')
        for pr,rows in pairs.items():
            a=tuple(pr)*2 if len(pr)==1 else tuple(pr)
            d=net.G.edges[a[0],a[1]]
            if len(rows)==1 and (d[NetworkNames.TOPOLOGY],d[NetworkNames.MOTIF_IDS])!=rows[0]: note('c04 attrs')
        back=NetworkToEdgeList.convert(net)
        if list(back.joint_degrees)!=list(jds): note('c04 back jds')
        net2=EdgeListToNetwork.convert(back)
        if not nx.utils.graphs_equal(net.G,net2.G): note('c04 roundtrip')
    else:
        if set(out.G.nodes())!=set(range(N)): note('net nodes',(N,sorted(out.G.nodes())))
print('gen/convert done',dict(bad))
# ---------- custom motifs multi-orbit
for it in range(800):
    # motifs: list of orbit-size tuples and builder
    defs=[((2,),bare,lambda:"e"),((3,),twoedge,lambda:("p","q")),((1,2),lambda vs:[(vs[0],vs[1]),(vs[0],vs[2]),(vs[1],vs[2])],lambda:("a","a","b")),((2,2),lambda vs:[(vs[0],vs[2]),(vs[1],vs[3]),(vs[0],vs[1])],lambda:("x","y","z")),((2,),lambda vs:[(vs[0],vs[1])],lambda:["one"])]
    chosen=[rng.choice(defs) for _ in range(rng.randint(1,3))]
    sizes=[];indices=[];col=0
    for orb,_,_ in chosen:
        idx=[]
        for s in orb: sizes.append(s); idx.append(col); col+=1
        indices.append(idx)
    N=rng.randint(4,20)
    jds=[[0]*col for _ in range(N)]
    for (orb,_,_),idx in zip(chosen,indices):
        n=rng.randint(0,4)
        for s,c in zip(orb,idx):
            for _ in range(n*s): jds[rng.randrange(N)][c]+=1
    jds=[tuple(j) for j in jds]
    log=[]
    p={GCMAlgorithmNames.MOTIF_SIZES:sizes,GCMAlgorithmNames.MOTIF_INDICES:indices,GCMAlgorithmNames.EDGE_NAMES:[c[2] for c in chosen],GCMAlgorithmNames.BUILD_FUNCTIONS:[rec(c[1],log,k) for k,c in enumerate(chosen)]}
    random.seed(it)
    el=GCMAlgorithmCustomMotifs(p).random_clustered_graph(jds)
    if not(len(el.edge_list)==len(el.topologies)==len(el.motif_id)): note('custom cols',(len(el.edge_list),len(el.topologies),len(el.motif_id)))
    if any((not isinstance(e,(tuple,list))) or len(e)!=2 or not all(isinstance(x,int) for x in e) for e in el.edge_list): note('custom entry',el.edge_list[:3])
    for k,((orb,_,nm),idx) in enumerate(zip(chosen,indices)):
        calls=[c for c in log if c[0]==k]
        off=0
        for s,c in zip(orb,idx):
            got=collections.Counter(itertools.chain(*[cl[1][off:off+s] for cl in calls])); off+=s
            if got!=collections.Counter({v:j[c] for v,j in enumerate(jds) if j[c]}): note('custom conserve')
    by=collections.defaultdict(list)
    for e,t,m in zip(el.edge_list,el.topologies,el.motif_id): by[m].append((tuple(sorted(e)),t))
    want=[]
    for c in log:
        es=norm(c[2]); nm=chosen[c[0]][2]()
        if isinstance(nm,str): nm=[nm]
        want.append(sorted((tuple(sorted(e)),n) for e,n in zip(es,nm)))
    if sorted(sorted(v) for v in by.values())!=sorted(want): note('custom groups')
print('custom done',dict(bad))
