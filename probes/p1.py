import random, traceback
from gcmpy import *
def t(name, f):
    try:
        print(name, '->', f())
    except Exception as e:
        print(name, 'RAISED', type(e).__name__, e)

# C02
def c02():
    def two(vs): return (vs[0], vs[1])
    def two_n(): return "2-clique"
    def path(vs): return ((vs[0],vs[1]),(vs[1],vs[2]))
    def path_n(): return ("a","b")
    p={GCMAlgorithmNames.MOTIF_SIZES:[2,3],GCMAlgorithmNames.EDGE_NAMES:[two_n,path_n],GCMAlgorithmNames.BUILD_FUNCTIONS:[two,path],GCMAlgorithmNames.MOTIF_INDICES:[[0],[1]]}
    jds=[(1,1),(1,1),(0,1),(2,0),(0,0),(0,0)]
    es=GCMAlgorithmCustomMotifs(p).random_clustered_graph(jds)
    return es.edge_list, es.topologies, es.motif_id
t('C02', c02)
# C04
def c04():
    p={GCMAlgorithmNames.MOTIF_SIZES:[2],GCMAlgorithmNames.EDGE_NAMES:['2-clique'],GCMAlgorithmNames.BUILD_FUNCTIONS:[clique_motif]}
    jds=[(1,),(0,),(1,),(0,),(2,),(2,)]
    g=GCMAlgorithmNetwork(p).random_clustered_graph(jds)
    print(sorted(g.G.nodes(data=True)))
    return NetworkToEdgeList.convert(g).joint_degrees
t('C04', c04)
def c05():
    p={JointDegreeNames.JDD:{(1,1):.5,(2,0):.5},JointDegreeNames.MOTIF_SIZES:[2,3]}
    out=set()
    for s in range(20):
        random.seed(s)
        j=JointDegreeManual(p).sample_jds_from_jdd(7)
        out|={type(x).__name__ for x in j}
    return out
t('C05', c05)
def c06():
    p={JointDegreeNames.MOTIF_SIZES:[2,3],JointDegreeNames.FP:lambda jd:1.0/(1+sum(jd)),JointDegreeNames.LOW_HIGH_DEGREE_BOUND:[(0,2),(0,1)]}
    return JointDegreeFunction(p).jdd
t('C06', c06)
def c07():
    p={JointDegreeNames.MOTIF_SIZES:[2,3],JointDegreeNames.FP:lambda k:1.0/(k+1),JointDegreeNames.PROBS:[.5,.5],JointDegreeNames.LOW_HIGH_DEGREE_BOUND:(1,5)}
    a=JointDegreeSplitDegree(p).jdd
    p[JointDegreeNames.TARGET_K]=3
    b=JointDegreeDelta(p).jdd
    return a,b
t('C07', c07)
def c08():
    p={JointDegreeNames.COVER:[[0,1],[1,2,3,4],[2,5]]}
    c=JointDegreeCover(p); return c.motif_sizes,c.jdd
t('C08', c08)
def c19():
    return poisson(2.0)(3)
t('C19', c19)
def c14():
    jdd={(1,1):.25,(2,0):.25,(0,2):.5}
    qs=JointExcessfromJDD.get_joint_excess_distributions(jdd)
    names=['red','blue']
    return JointDegreeFromExcess.get_joint_degree_distribution(JointExcessfromJDD.convert_list_qks_to_dict(qs,names),names)
t('C14', c14)
def c14b():
    jdd={(1,1):.25,(2,0):.25,(0,2):.5}
    qs=JointExcessfromJDD.get_joint_excess_distributions(jdd)
    names=['2-clique','blue']
    return JointDegreeFromExcess.get_joint_degree_distribution(JointExcessfromJDD.convert_list_qks_to_dict(qs,names),names)
t('C14b', c14b)
