import random, itertools, collections, ast
import networkx as nx
from gcmpy import *
rng=random.Random(2)
bad=collections.Counter()
for it in range(400):
    n=rng.randint(3,11); g=nx.gnp_random_graph(n,rng.choice([.3,.5,.7,.9]),seed=rng.randint(0,10**9))
    for ms in (0,2,3,4):
        random.seed(it)
        G=nx.Graph(g)
        R=MPCC(G,ms)
        assert R is G
        if set(G.nodes())!=set(g.nodes()) or set(map(frozenset,G.edges()))!=set(map(frozenset,g.edges())): bad['graph']+=1
        labs=collections.defaultdict(set)
        for u,v,d in G.edges(data=True):
            if 'clique' not in d: bad['unlabelled']+=1; continue
            labs[d['clique']].add(frozenset((u,v)))
        ids=collections.Counter()
        assigned={}
        for lab,es in labs.items():
            size,mem,cid=lab.split('-'); mem=ast.literal_eval(mem); size=int(size)
            ids[int(cid)]+=1
            if len(mem)!=size: bad['size']+=1
            if ms and size>ms: bad['limit']+=1
            if es!={frozenset(p) for p in itertools.combinations(mem,2)}: bad['pairs']+=1
            for e in es: assigned[e]=size
        if any(v>1 for v in ids.values()): bad['ids']+=1
        for c in nx.enumerate_all_cliques(g):
            if len(c)<2 or (ms and len(c)>ms): continue
            if not any(assigned.get(frozenset(p),0)>=len(c) for p in itertools.combinations(c,2)): bad['greedy']+=1
        bad['runs']+=1
print(bad)
G=nx.complete_graph(4); MPCC(G); print(G.edges(data=True))
