import sys
cfg=int(sys.argv[1])
sys.argv=['x','ok','100','2']
exec(open('p9.py').read().split("names=['2-clique','3-clique']; sizes=[2,3]")[0])
names=['2-clique','3-clique']; sizes=[2,3]
CF=[([(5,1),(3,2),(1,3)],[100,100,100]),([(2,1),(1,2),(3,1)],[120,120,120]),([(1,1),(4,2)],[150,150]),([(2,2),(3,1),(1,1),(6,1)],[90,90,90,90]),
    ([(1,1),(2,1),(1,2)],[150,150,150]),([(3,3),(1,1)],[100,200]),([(2,1),(2,2),(4,1)],[60,120,180]),([(1,2),(5,1)],[200,100])]
classes,counts=CF[cfg]
# fix divisibility by adjusting last count
def ok(counts): return all(sum(c[t]*n for c,n in zip(classes,counts))%s==0 for t,s in enumerate(sizes))
while not ok(counts): counts[-1]+=1
for seed in range(3):
    rng=random.Random(seed); random.seed(seed)
    G=build_clean(rng,classes,counts,sizes,names,0.4)
    perm=list(G.nodes()); rng.shuffle(perm)
    G=nx.relabel_nodes(G,dict(zip(G.nodes(),perm)),copy=True)
    G2=nx.Graph(); G2.add_nodes_from(sorted(G.nodes(data=True))); G2.add_edges_from(G.edges(data=True)); G=G2
    T=target(G,names,0.8)
    net=Network(); net.G=G
    tm=JointExcessJointDegreeMatrices({ToolsNames.EJKS:T,ToolsNames.EDGE_NAMES:names})
    e0=ejk_of(G,names); M.MarkovChainMonteCarlo._proposal_count=0
    L=int(1.5*G.number_of_edges()/2)
    t=time.time()
    m=MarkovChainMonteCarloRewiring({ToolsNames.NETWORK:net,ToolsNames.EJKS:tm,ToolsNames.CONVERGENCE_LIMIT:L,ToolsNames.SEARCH_LIMIT:20})
    H=m.rewire(); e1=ejk_of(H,names)
    print(cfg,seed,'N',G.order(),'E',G.number_of_edges(),'L',L,'d0',round(dist(e0,T,names),3),'d1',round(dist(e1,T,names),3),'props',M.MarkovChainMonteCarlo._proposal_count,'t',round(time.time()-t,1),flush=True)
