import random, itertools, collections, math, copy
import networkx as nx
from gcmpy import *
rng=random.Random(13)
bad=collections.Counter()
def note(k,info=None):
    bad[k]+=1
    if bad[k]<=2: print('!!',k,info)
T_=NetworkNames.TOPOLOGY; J_=NetworkNames.JOINT_DEGREE
# ---- C13 arbitrary annotated graphs
def ref(G,names):
    out={}
    for i,t in enumerate(names):
        es=[(u,v) for u,v,d in G.edges(data=True) if d[T_]==t]; m={}
        for u,v in es:
            a=list(G.nodes[u][J_]); a[i]-=1; b=list(G.nodes[v][J_]); b[i]-=1; a=tuple(a); b=tuple(b)
            m[a+b]=m.get(a+b,0)+1/(2*len(es)); m[b+a]=m.get(b+a,0)+1/(2*len(es))
        out[t]=m
    return out
for it in range(600):
    n=rng.randint(3,25); g=nx.gnp_random_graph(n,rng.uniform(.1,.6),seed=it)
    T=rng.randint(1,3); names=[rng.choice(['2-clique','a','2-clique-blue','x-y'])+str(i) for i in range(T)]
    for u,v in g.edges(): g.edges[u,v][T_]=rng.choice(names)
    for v in g:
        jd=[0]*T
        for _,w,d in g.edges(v,data=True): jd[names.index(d[T_])]+=1
        if rng.random()<.3: jd=[x+rng.randint(0,2) for x in jd]
        g.nodes[v][J_]=tuple(jd)
    C=JointExcessJointDegree({ToolsNames.NETWORK:g,ToolsNames.EDGE_NAMES:names})
    r=ref(g,names)
    for call in range(rng.randint(1,3)):
        e=C.get_ejks()
        for t in names:
            m=e.ejks[t]
            if set(m)!=set(r[t]) or any(abs(m[k]-r[t][k])>1e-12 for k in m): note('c13 value',(it,call,t))
            h=len(next(iter(m)))//2 if m else 0
            if any(abs(m[k]-m[k[h:]+k[:h]])>1e-12 for k in m): note('c13 sym')
            if m and abs(sum(m.values())-1)>1e-9: note('c13 sum')
    # overall
    if g.number_of_edges():
        o=JointExcessDegree.get_ejk(g); E=g.number_of_edges(); rr={}
        for u,v in g.edges():
            a,b=g.degree(u)-1,g.degree(v)-1
            rr[(a,b)]=rr.get((a,b),0)+.5/E; rr[(b,a)]=rr.get((b,a),0)+.5/E
        if set(o)!=set(rr) or any(abs(o[k]-rr[k])>1e-12 for k in o): note('c13 overall')
print('c13',dict(bad))
# ---- C14
for it in range(1500):
    T=rng.randint(1,4); nk=rng.randint(1,7)
    keys={tuple(rng.randint(0,4) for _ in range(T)) for _ in range(nk)}
    keys.add(tuple(rng.randint(1,4) for _ in range(T)))
    w={k:rng.random()+.01 for k in keys}; z=sum(w.values()); P={k:v/z for k,v in w.items()}
    names=rng.sample(['3-clique','red','blue','2-clique','x-y-z','τ'],T)
    av=AverageJointDegreeFromJDD.get_average_joint_degrees(P)
    if any(abs(av[i]-sum(k[i]*p for k,p in P.items()))>1e-12 for i in range(T)): note('c14 avg')
    qs=JointExcessfromJDD.get_joint_excess_distributions(P)
    for i,q in enumerate(qs):
        exp={}
        for k,p in P.items():
            if k[i]>0:
                kk=list(k); kk[i]-=1; exp[tuple(kk)]=k[i]*p/av[i]
        if set(q)!=set(exp) or any(abs(q[k]-exp[k])>1e-12 for k in q): note('c14 fwd')
        if abs(sum(q.values())-1)>1e-9: note('c14 fwd sum')
    back=JointDegreeFromExcess.get_joint_degree_distribution(JointExcessfromJDD.convert_list_qks_to_dict(qs,names),names)
    nz={k:p for k,p in P.items() if any(k)}; zz=sum(nz.values()); nz={k:p/zz for k,p in nz.items()}
    if set(back)!=set(nz) or any(abs(back[k]-nz[k])>1e-9 for k in nz): note('c14 inverse',(P,names,back))
    # matrices row sums
    ejk={}
    for i,t in enumerate(names):
        ks=list(qs[i]); m={}
        for a in ks:
            for b in ks:
                if a<=b and rng.random()<.7:
                    v=rng.random(); m[a+b]=v; m[b+a]=v
        ejk[t]=m
    mats=JointExcessJointDegreeMatrices({ToolsNames.EJKS:ejk,ToolsNames.EDGE_NAMES:names})
    got=JointExcessFromEjk.get_excess_joint_distributions(mats)
    for t in names:
        h=None; exp={}
        for k,v in ejk[t].items():
            h=len(k)//2; exp[k[:h]]=exp.get(k[:h],0)+v
        if set(got[t])!=set(exp) or any(abs(got[t][k]-exp[k])>1e-12 for k in exp): note('c14 rows')
print('c14',dict(bad))
# ---- C19
import numpy as np
for it in range(300):
    a=rng.uniform(.01,5); f=exponential(a)
    if any(abs(f(k)-(1-math.exp(-a))*math.exp(-a*k))>1e-12 for k in range(0,60)): note('c19 exp')
    m=rng.uniform(.05,30); f=poisson(m)
    if any(abs(f(k)-math.exp(-m)*m**k/math.factorial(k))>1e-12*max(1,f(k)) for k in range(0,100)): note('c19 poisson')
    al=rng.uniform(2,6); f=power_law(al)
    Z=sum(k**-al for k in range(1,200000))+ (200000**(1-al))/(al-1)
    K=10**(6/al); tail=K**(1-al)/(al-1); tol=1.5*tail/Z+1e-12
    if any(abs(f(k)*Z/k**-al-1)>tol for k in (1,2,5,50)): note('c19 pl',(al,f(1)*Z,tol))
    ka=rng.uniform(.5,500); f=scale_free_cut_off(al,ka)
    Z=math.fsum(k**-al*math.exp(-k/ka) for k in range(1,400000))
    tailterms=math.fsum(k**-al*math.exp(-k/ka) for k in range(1,400000) if k**-al*math.exp(-k/ka)<1e-6)
    tol=1.5*tailterms/Z+1e-12
    if any(abs(f(k)*Z/(k**-al*math.exp(-k/ka))-1)>tol for k in (1,2,5,50)): note('c19 sf',(al,ka,f(1)*Z/math.exp(-1/ka),tol))
print('c19',dict(bad))
# ---- C20
for it in range(4000):
    U=[(i,i+1) for i in range(rng.randint(1,6))]
    d=DrawSet(); s=set(); order=[]
    for step in range(rng.randint(1,50)):
        op=rng.choice(['add','add','rem','rem','remabs','draw','len'])
        if op=='add':
            e=rng.choice(U); d.add(e); s.add(e)
        elif op=='rem' and s:
            e=rng.choice(sorted(s)); d.remove(e); s.remove(e)
        elif op=='remabs':
            ab=[e for e in U if e not in s]
            if ab:
                try: d.remove(ab[0]); note('c20 no raise')
                except KeyError: pass
        elif op=='draw' and s:
            if d.draw() not in s: note('c20 draw')
        if len(d)!=len(s) or sorted(d)!=sorted(s) or any((e in d)!=(e in s) for e in U): note('c20 model')
print('c20',dict(bad))
# ---- C18
for it in range(300):
    n=rng.randint(1,30); g=nx.gnp_random_graph(n,rng.random()*.4,seed=it); g0=g.copy()
    phi=rng.choice([0,1,.3,.7]); random.seed(it)
    S=bond_percolate(g,phi)
    if not nx.utils.graphs_equal(g,g0): note('c18 mutated')
    if abs(S*n-round(S*n))>1e-9 or not(1/n-1e-12<=S<=1+1e-12): note('c18 lattice')
    if phi==1 and abs(S-max(map(len,nx.connected_components(g)))/n)>1e-12: note('c18 phi1')
    if phi==0 and abs(S-1/n)>1e-12: note('c18 phi0')
print('c18',dict(bad))
