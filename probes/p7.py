import random, itertools, math, time
import networkx as nx
from gcmpy import *
from p6 import exact, ref
def build(rng, N, nm):
    shapes=[ [(0,1)], [(0,1),(1,2),(0,2)], [(0,1),(1,2),(2,3),(3,0)], [(0,1),(1,2),(2,3),(3,0),(0,2)], list(itertools.combinations(range(4),2)), [(0,1),(1,2),(2,3),(3,4),(4,0)]]
    G=nx.Graph(); G.add_nodes_from(range(N)); motifs=[]
    tries=0
    while len(motifs)<nm and tries<1000:
        tries+=1
        sh=rng.choice(shapes); k=1+max(itertools.chain(*sh))
        vs=rng.sample(range(N),k)
        if any(len(set(vs)&set(m[0]))>1 for m in motifs): continue
        es=[(vs[a],vs[b]) for a,b in sh]
        m=len(motifs)
        motifs.append((sorted(vs),es))
        lab=f"{len(vs)}-{sorted(vs)}-{es}-{m}"
        for a,b in es: G.add_edge(a,b,CoverLabel=lab)
    return G,motifs
if __name__=='__main__':
    rng=random.Random(7)
    for trial in range(5):
        G,motifs=build(rng, rng.randint(8,14), rng.randint(5,10))
        t=time.time()
        MP=MessagePassing(G, iterations=25)
        prev=-1
        for phi in [0,0.2,0.4,0.6,0.8,1.0]:
            a=MP.theoretical(phi); b,it=ref(G,motifs,phi)
            fresh=MessagePassing(G, iterations=25).theoretical(phi)
            print(trial,G.order(),len(motifs),phi,round(a,8),round(b,8),it, abs(a-b)<1e-6, a==fresh, 'MONO-BAD' if a<prev-1e-12 else '')
            prev=a
        print('time',time.time()-t)
