import random, itertools, collections, sys, time
import networkx as nx
from gcmpy import *
import gcmpy.tools.markov_chain_monte_carlo_rewiring as M
exec(open('p9.py').read().split("names=['2-clique','3-clique']; sizes=[2,3]")[0].split("mode=sys.argv")[0])
T_=NetworkNames.TOPOLOGY; I_=NetworkNames.MOTIF_IDS
class MG(nx.Graph):
    log=None; role='input'
    def copy(self, as_view=False):
        g=super().copy(as_view=as_view)
        g.role='working'; g.log=[]; return g
    def add_edge(self,u,v,**kw):
        if self.log is not None: self.log.append(('add',u,v))
        return super().add_edge(u,v,**kw)
    def remove_edge(self,u,v):
        if self.log is not None: self.log.append(('rem',u,v))
        return super().remove_edge(u,v)
stats=collections.Counter()
pending=[None]
def settle(G):
    p=pending[0]; pending[0]=None
    if p is None: return
    u0,v0,e0s,e1s,old=p
    ev=G.log[:]; del G.log[:]
    adds=[(a,b) for k,a,b in ev if k=='add']; rems=[(a,b) for k,a,b in ev if k=='rem']
    assert set(map(frozenset,rems))==set(map(frozenset,e0s+e1s)),(rems,e0s,e1s)
    newu=[e for e in adds if u0 in e and v0 not in e]; newv=[e for e in adds if v0 in e and u0 not in e]
    stats['loops']+=sum(1 for a,b in adds if a==b)
    idu_old=collections.Counter(old[frozenset(e)][1] for e in e0s); idv_old=collections.Counter(old[frozenset(e)][1] for e in e1s)
    idu_new=collections.Counter(G.edges[e][I_] for e in newu); idv_new=collections.Counter(G.edges[e][I_] for e in newv)
    if idu_new==idv_old and idv_new==idu_old: stats['ideal']+=1
    elif idu_new==idu_old and idv_new==idv_old: stats['K1']+=1
    else: stats['other']+=1; print('OTHER',u0,v0,e0s,e1s,adds,idu_old,idv_old,idu_new,idv_new)
orig=M.MarkovChainMonteCarloRewiring.swap_condition
def w(self,G,e0s,e1s,u0,v0):
    settle(G)
    old={frozenset(e):(G.edges[e][T_],G.edges[e][I_]) for e in e0s+e1s}
    r=orig(self,G,e0s,e1s,u0,v0)
    stats['prop']+=1
    if r: pending[0]=(u0,v0,list(e0s),list(e1s),old); stats['acc']+=1
    return r
M.MarkovChainMonteCarloRewiring.swap_condition=w
names=['2-clique','3-clique']; sizes=[2,3]; classes=[(2,1),(1,2),(3,1)]
for seed in range(6):
    rng=random.Random(seed); random.seed(seed)
    G0=build_clean(rng,classes,[15,15,15],sizes,names,0.2)
    G=MG(); G.add_nodes_from(G0.nodes(data=True)); G.add_edges_from(G0.edges(data=True))
    T=target(G,names,0.5)
    net=Network(); net.G=G
    tm=JointExcessJointDegreeMatrices({ToolsNames.EJKS:T,ToolsNames.EDGE_NAMES:names})
    m=MarkovChainMonteCarloRewiring({ToolsNames.NETWORK:net,ToolsNames.EJKS:tm,ToolsNames.CONVERGENCE_LIMIT:300,ToolsNames.SEARCH_LIMIT:20})
    H=m.rewire(); settle(H)
    assert G.log is None and nx.utils.graphs_equal(G,G0)
print(dict(stats), type(H).__name__, H.role)
