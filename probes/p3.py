import sys
from p2helpers import *
def run(names,sizes,builders,jdd,N,seeds,limit=300):
    loops=0; bad=0; tot=0; degbad=0
    for seed in seeds:
        g=clean_network(N,jdd,sizes,names,builders,seed)
        target=uniform_target(g,names)
        before=motif_graphs(g.G)
        m=MarkovChainMonteCarloRewiring({ToolsNames.NETWORK:g,ToolsNames.EJKS:target,ToolsNames.CONVERGENCE_LIMIT:limit,ToolsNames.SEARCH_LIMIT:20})
        G=m.rewire()
        loops+=nx.number_of_selfloops(G)
        after=motif_graphs(G)
        for mid in before:
            tot+=1
            if mid not in after or not nx.is_isomorphic(before[mid],after[mid]): bad+=1
        # per-topology degree
        def topdeg(H):
            d=collections.Counter()
            for u,v,dd in H.edges(data=True):
                d[(u,dd[NetworkNames.TOPOLOGY])]+=1; d[(v,dd[NetworkNames.TOPOLOGY])]+=1
            return d
        if topdeg(g.G)!=topdeg(G): degbad+=1
    print(names,'selfloops',loops,'bad motifs',bad,'of',tot,'degbad',degbad)
def cyc(n):
    return cycle_motif
run(['2-clique','3-clique'],[2,3],[clique_motif,clique_motif],{(1,1):1/3,(2,1):1/3,(1,2):1/3},40,range(10))
run(['2-clique','4-clique'],[2,4],[clique_motif,clique_motif],{(1,1):1/3,(2,1):1/3,(1,2):1/3},60,range(6))
run(['2-clique','4-cycle'],[2,4],[clique_motif,cycle_motif],{(1,1):1/3,(2,1):1/3,(1,2):1/3},60,range(6))
run(['2-clique','6-cycle'],[2,6],[clique_motif,cycle_motif],{(1,1):1/3,(2,1):1/3,(1,2):1/3},60,range(6))
run(['2-clique','6-cycle'],[2,6],[clique_motif,cycle_motif],{(1,2):1/2,(0,3):1/2},40,range(6))
