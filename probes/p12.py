import sys, time, random, signal
import networkx as nx
from gcmpy import *
import gcmpy.tools.markov_chain_monte_carlo_rewiring as M
N=int(sys.argv[1]); L=int(sys.argv[2])
edge_names=["2-clique","3-clique"]; motif_sizes=[2,3]
e=1e-8
T2={(0,3,0,3):9/81-2*e,(0,3,4,1):e,(0,3,2,2):e,(4,1,0,3):e,(4,1,4,1):45/81-2*e,(4,1,2,2):e,(2,2,0,3):e,(2,2,4,1):e,(2,2,2,2):27/81-2*e}
T3={(3,1,3,1):48/144-2*e,(3,1,1,2):e,(3,1,5,0):e,(1,2,3,1):e,(1,2,1,2):72/144-2*e,(1,2,5,0):e,(5,0,3,1):e,(5,0,1,2):e,(5,0,5,0):24/144-2*e}
tgt=JointExcessJointDegreeMatrices({ToolsNames.EDGE_NAMES:edge_names,ToolsNames.EJKS:{"2-clique":T2,"3-clique":T3}})
qks=JointExcessFromEjk.get_excess_joint_distributions(tgt)
jdd=JointDegreeFromExcess.get_joint_degree_distribution(qks,edge_names)
random.seed(int(sys.argv[3]) if len(sys.argv)>3 else 0)
jds=JointDegreeManual({JointDegreeNames.JDD:jdd,JointDegreeNames.MOTIF_SIZES:motif_sizes}).sample_jds_from_jdd(N)
g=GCMAlgorithmNetwork({GCMAlgorithmNames.MOTIF_SIZES:motif_sizes,GCMAlgorithmNames.EDGE_NAMES:edge_names,GCMAlgorithmNames.BUILD_FUNCTIONS:[clique_motif,clique_motif]}).random_clustered_graph(jds)
ini=JointExcessJointDegree({ToolsNames.NETWORK:g.G,ToolsNames.EDGE_NAMES:edge_names}).get_ejks()
mc=MarkovChainMonteCarloRewiring({ToolsNames.NETWORK:g,ToolsNames.EJKS:tgt,ToolsNames.SEARCH_LIMIT:20,ToolsNames.CONVERGENCE_LIMIT:L})
orig=M.MarkovChainMonteCarloRewiring.swap_condition
cnt=[0,0]; t0=time.time()
def w(self,*a):
    cnt[0]+=1
    r=orig(self,*a)
    if r:
        cnt[1]+=1
        if cnt[1]%max(1,L//10)==0: print('accepted',cnt[1],'proposals',cnt[0],'t',round(time.time()-t0,1),flush=True)
    return r
M.MarkovChainMonteCarloRewiring.swap_condition=w
def to(*a): raise SystemExit('TIMEOUT at accepted %d proposals %d'%(cnt[1],cnt[0]))
signal.signal(signal.SIGALRM,to); signal.alarm(int(sys.argv[4]) if len(sys.argv)>4 else 120)
G=mc.rewire()
fin=JointExcessJointDegree({ToolsNames.NETWORK:G,ToolsNames.EDGE_NAMES:edge_names}).get_ejks()
bad=0
for t in edge_names:
    for k in tgt.ejks[t]:
        a,b,c=tgt.ejks[t][k],ini.ejks[t].get(k),fin.ejks[t].get(k)
        if b is None or c is None or abs(a-b)<abs(a-c): bad+=1; print('BAD',t,k,a,b,c)
print('done',cnt,'bad',bad,'time',round(time.time()-t0,1))
