import random, itertools, collections
import networkx as nx
from gcmpy import *
def clean_network(N, jdd, sizes, names, builders, seed):
    random.seed(seed)
    for attempt in range(5000):
        p={JointDegreeNames.JDD:jdd,JointDegreeNames.MOTIF_SIZES:sizes}
        jds=[tuple(x) for x in JointDegreeManual(p).sample_jds_from_jdd(N)]
        p={GCMAlgorithmNames.MOTIF_SIZES:sizes,GCMAlgorithmNames.EDGE_NAMES:names,GCMAlgorithmNames.BUILD_FUNCTIONS:builders}
        el=GCMAlgorithmFast(p).random_clustered_graph(jds)
        pairs=[tuple(sorted(e)) for e in el.edge_list]
        if any(a==b for a,b in pairs) or len(set(pairs))!=len(pairs):
            continue
        g=EdgeListToNetwork.convert(el)
        for n,jd in enumerate(jds):
            if n not in g.G:
                g.G.add_node(n); g.G.nodes[n][NetworkNames.JOINT_DEGREE]=jd
        return g
    raise RuntimeError
def motif_graphs(G):
    by=collections.defaultdict(nx.Graph)
    for u,v,d in G.edges(data=True):
        by[d[NetworkNames.MOTIF_IDS]].add_edge(u,v)
    return by
def ejk_of(G,names):
    return JointExcessJointDegree({ToolsNames.NETWORK:G,ToolsNames.EDGE_NAMES:names}).get_ejks()
def uniform_target(g,names):
    e0=ejk_of(g.G,names)
    tgt={}
    for t in names:
        ks=e0.excess_degree_keys[t]
        tgt[t]={a+b:1.0/len(ks)**2 for a in ks for b in ks}
    return JointExcessJointDegreeMatrices({ToolsNames.EJKS:tgt,ToolsNames.EDGE_NAMES:names})
