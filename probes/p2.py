import random, itertools, collections
import networkx as nx
from gcmpy import *

def clean_network(N, jdd, sizes, names, builders, seed):
    random.seed(seed)
    for attempt in range(1000):
        p={JointDegreeNames.JDD:jdd,JointDegreeNames.MOTIF_SIZES:sizes}
        jds=[tuple(x) for x in JointDegreeManual(p).sample_jds_from_jdd(N)]
        p={GCMAlgorithmNames.MOTIF_SIZES:sizes,GCMAlgorithmNames.EDGE_NAMES:names,GCMAlgorithmNames.BUILD_FUNCTIONS:builders}
        el=GCMAlgorithmFast(p).random_clustered_graph(jds)
        pairs=[tuple(sorted(e)) for e in el.edge_list]
        if any(a==b for a,b in pairs) or len(set(pairs))!=len(pairs):
            continue
        # add isolated nodes manually
        g=EdgeListToNetwork.convert(el)
        for n,jd in enumerate(jds):
            if n not in g.G:
                g.G.add_node(n); g.G.nodes[n][NetworkNames.JOINT_DEGREE]=jd
        return g
    raise RuntimeError

def motif_shapes(G):
    by=collections.defaultdict(list)
    for u,v,d in G.edges(data=True):
        by[d[NetworkNames.MOTIF_IDS]].append((u,v))
    return by

def ejk_of(G,names):
    return JointExcessJointDegree({ToolsNames.NETWORK:G,ToolsNames.EDGE_NAMES:names}).get_ejks()

names=['2-clique','3-clique']; sizes=[2,3]
jdd={(1,1):1/3,(2,1):1/3,(1,2):1/3}
tot_loops=0; bad_tri=0; tot_tri=0
for seed in range(10):
    g=clean_network(40,jdd,sizes,names,[clique_motif,clique_motif],seed)
    e0=ejk_of(g.G,names)
    # full-support target: uniformish over key products
    tgt={}
    for t in names:
        ks=e0.excess_degree_keys[t]
        tgt[t]={a+b:1.0/len(ks)**2 for a in ks for b in ks}
    target=JointExcessJointDegreeMatrices({ToolsNames.EJKS:tgt,ToolsNames.EDGE_NAMES:names})
    before=nx.Graph(g.G)
    m=MarkovChainMonteCarloRewiring({ToolsNames.NETWORK:g,ToolsNames.EJKS:target,ToolsNames.CONVERGENCE_LIMIT:200,ToolsNames.SEARCH_LIMIT:20})
    G=m.rewire()
    assert nx.utils.graphs_equal(before,g.G)
    tot_loops+=nx.number_of_selfloops(G)
    for mid,es in motif_shapes(G).items():
        if len(es)==3:
            tot_tri+=1
            vs=set(itertools.chain(*es))
            if len(vs)!=3: bad_tri+=1
print('selfloops',tot_loops,'bad triangles',bad_tri,'of',tot_tri)
try:
    MarkovChainMonteCarloRewiring({ToolsNames.NETWORK:g,ToolsNames.EJKS:target})
    print('default ok')
except Exception as e:
    print('default limit RAISED',type(e).__name__,str(e)[:100])
# C13
C=JointExcessJointDegree({ToolsNames.NETWORK:g.G,ToolsNames.EDGE_NAMES:names})
a=C.get_ejks(); s1={t:sum(a.ejks[t].values()) for t in names}
b=C.get_ejks(); s2={t:sum(b.ejks[t].values()) for t in names}
print('C13 sums',s1,s2)
