import random, itertools, collections, sys, time
import networkx as nx
from gcmpy import *
import gcmpy.tools.markov_chain_monte_carlo_rewiring as M

def build_clean(rng, classes, counts, sizes, names, assort):
    """classes: list of jd tuples; counts: vertices per class. returns nx.Graph annotated, clean.
    assort: prob that a motif is built within one class."""
    jds=[]
    for c,n in zip(classes,counts): jds+= [c]*n
    N=len(jds)
    G=nx.Graph(); G.add_nodes_from(range(N))
    for v in range(N): G.nodes[v][NetworkNames.JOINT_DEGREE]=jds[v]
    mid=0
    for t,(s,name) in enumerate(zip(sizes,names)):
        stubs=[v for v in range(N) for _ in range(jds[v][t])]
        assert len(stubs)%s==0
        # assortative ordering: with prob assort keep class-sorted blocks else shuffle
        byc=collections.defaultdict(list)
        for v in stubs: byc[jds[v]].append(v)
        within=[];pool=[]
        for c,l in byc.items():
            rng.shuffle(l)
            k=int(len(l)*assort)//s*s
            within+=l[:k]; pool+=l[k:]
        rng.shuffle(pool)
        order=within+pool
        groups=[order[i:i+s] for i in range(0,len(order),s)]
        # repair conflicts
        def bad(g):
            return len(set(g))<len(g)
        for it in range(100000):
            used=collections.Counter()
            conflict=None
            for gi,g in enumerate(groups):
                if bad(g): conflict=gi;break
                for p in itertools.combinations(sorted(g),2):
                    if p in used or G.has_edge(*p): conflict=gi;break
                    used[p]+=1
                if conflict is not None: break
            if conflict is None: break
            gj=rng.randrange(len(groups)); a=rng.randrange(s); b=rng.randrange(s)
            groups[conflict][a],groups[gj][b]=groups[gj][b],groups[conflict][a]
        else: raise RuntimeError
        for g in groups:
            for p in itertools.combinations(g,2):
                G.add_edge(*p); G.edges[p][NetworkNames.TOPOLOGY]=name; G.edges[p][NetworkNames.MOTIF_IDS]=mid
            mid+=1
    return G

def ejk_of(G,names):
    return JointExcessJointDegree({ToolsNames.NETWORK:G,ToolsNames.EDGE_NAMES:names}).get_ejks()
def dist(e,T,names):
    d=0
    for t in names:
        ks=set(e.ejks[t])|set(T[t])
        d+=sum(abs(e.ejks[t].get(k,0)-T[t].get(k,0)) for k in ks)
    return d
def target(G,names,lam):
    T={}
    for i,t in enumerate(names):
        q=collections.Counter()
        for u,v,d in G.edges(data=True):
            if d[NetworkNames.TOPOLOGY]==t:
                for w in (u,v):
                    jd=list(G.nodes[w][NetworkNames.JOINT_DEGREE]); jd[i]-=1; q[tuple(jd)]+=1
        tot=sum(q.values()); q={k:v/tot for k,v in q.items()}
        T[t]={a+b:(1-lam)*q[a]*q[b]+(lam*q[a] if a==b else 0) for a in q for b in q}
    return T
names=['2-clique','3-clique']; sizes=[2,3]
classes=[(5,1),(3,2),(1,3)]
mode=sys.argv[1] if len(sys.argv)>1 else 'ok'
if mode=='always':
    M.MarkovChainMonteCarloRewiring.swap_condition=lambda self,G,e0s,e1s,u0,v0: (M.MarkovChainMonteCarloRewiring.__dict__['_orig'](self,G,e0s,e1s,u0,v0) or True) if False else _always(self,G,e0s,e1s,u0,v0)
for seed in range(4):
    rng=random.Random(seed); random.seed(seed)
    n=int(sys.argv[2]) if len(sys.argv)>2 else 200
    G=build_clean(rng,classes,[n,n,n],sizes,names,0.4)
    T=target(G,names,0.8)
    net=Network(); net.G=G
    tm=JointExcessJointDegreeMatrices({ToolsNames.EJKS:T,ToolsNames.EDGE_NAMES:names})
    d0=dist(ejk_of(G,names),T,names)
    t=time.time()
    E=G.number_of_edges()
    m=MarkovChainMonteCarloRewiring({ToolsNames.NETWORK:net,ToolsNames.EJKS:tm,ToolsNames.CONVERGENCE_LIMIT:int(float(sys.argv[3])*E) if len(sys.argv)>3 else 2*E,ToolsNames.SEARCH_LIMIT:20})
    H=m.rewire()
    d1=dist(ejk_of(H,names),T,names)
    print(seed,'E',E,'d0',round(d0,3),'d1',round(d1,3),'time',round(time.time()-t,1),'props',M.MarkovChainMonteCarlo._proposal_count)
