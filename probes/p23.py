import random, itertools, collections, sys, time
import networkx as nx
from gcmpy import *
import gcmpy.tools.markov_chain_monte_carlo_rewiring as M
T_=NetworkNames.TOPOLOGY; I_=NetworkNames.MOTIF_IDS; J_=NetworkNames.JOINT_DEGREE
def build(rng, classes, counts, tops, assort=0.0, shuffle_ids=True):
    """tops: list of (name_fn(edge_index)->name, size, builder)"""
    jds=[]
    for c,n in zip(classes,counts): jds+=[c]*n
    N=len(jds)
    if shuffle_ids: rng.shuffle(jds)
    G=nx.Graph(); G.add_nodes_from(range(N))
    for v in range(N): G.nodes[v][J_]=jds[v]
    mid=0
    for t,(namef,s,b) in enumerate(tops):
        stubs=[v for v in range(N) for _ in range(jds[v][t])]
        assert len(stubs)%s==0,(t,len(stubs),s)
        rng.shuffle(stubs)
        groups=[stubs[i:i+s] for i in range(0,len(stubs),s)]
        for it in range(200000):
            used=set(); conflict=None
            for gi,g in enumerate(groups):
                if len(set(g))<len(g): conflict=gi;break
                es=[tuple(sorted(e)) for e in b(list(g))]
                if any(e in used or G.has_edge(*e) for e in es) or len(set(es))<len(es): conflict=gi;break
                used|=set(es)
            if conflict is None: break
            gj=rng.randrange(len(groups)); a=rng.randrange(s); c=rng.randrange(s)
            groups[conflict][a],groups[gj][c]=groups[gj][c],groups[conflict][a]
        else: raise RuntimeError('no clean')
        for g in groups:
            for k,e in enumerate(b(list(g))):
                G.add_edge(*e); G.edges[e][T_]=namef(k); G.edges[e][I_]=mid
            mid+=1
    return G
class MG(nx.Graph):
    log=None
    def copy(self, as_view=False):
        g=super().copy(as_view=as_view); g.log=[]; return g
    def add_edge(self,u,v,**kw):
        if self.log is not None: self.log.append(('add',u,v))
        return super().add_edge(u,v,**kw)
    def remove_edge(self,u,v):
        if self.log is not None: self.log.append(('rem',u,v))
        return super().remove_edge(u,v)
stats=collections.Counter(); pending=[None]
def settle(G):
    p=pending[0]; pending[0]=None
    if p is None: return
    u0,v0,e0s,e1s,old=p
    ev=G.log[:]; del G.log[:]
    adds=[(a,b) for k,a,b in ev if k=='add']; rems=[(a,b) for k,a,b in ev if k=='rem']
    if set(map(frozenset,rems))!=set(map(frozenset,e0s+e1s)): stats['rem-mismatch']+=1
    if any(a==b for a,b in adds): stats['loop']+=1
    exp_u={frozenset((u0,(set(e)-{v0}).pop())):old[frozenset(e)] for e in e1s}
    exp_v={frozenset((v0,(set(e)-{u0}).pop())):old[frozenset(e)] for e in e0s}
    if set(map(frozenset,adds))!=set(exp_u)|set(exp_v): stats['add-mismatch']+=1; return
    got={frozenset(e):(G.edges[e][T_],G.edges[e][I_]) for e in adds}
    exp={**exp_u,**exp_v}
    if got==exp: stats['ideal']+=1
    elif all(got[e][0]==exp[e][0] for e in exp):
        idu_old=collections.Counter(old[frozenset(e)][1] for e in e0s); idv_old=collections.Counter(old[frozenset(e)][1] for e in e1s)
        idu_new=collections.Counter(got[e][1] for e in exp_u); idv_new=collections.Counter(got[e][1] for e in exp_v)
        if idu_new==idu_old and idv_new==idv_old: stats['K1']+=1
        else: stats['other-id']+=1
    else:
        stats['topology-wrong']+=1
        if stats['topology-wrong']<3: print('TOPO',u0,v0,e0s,e1s,old,got,exp)
orig=M.MarkovChainMonteCarloRewiring.swap_condition
def w(self,G,e0s,e1s,u0,v0):
    settle(G)
    old={frozenset(e):(G.edges[e][T_],G.edges[e][I_]) for e in e0s+e1s}
    r=orig(self,G,e0s,e1s,u0,v0); stats['prop']+=1
    if r: pending[0]=(u0,v0,list(e0s),list(e1s),old); stats['acc']+=1
    return r
M.MarkovChainMonteCarloRewiring.swap_condition=w
def topdeg(H):
    d=collections.Counter()
    for u,v,dd in H.edges(data=True): d[(u,dd[T_])]+=1; d[(v,dd[T_])]+=1
    return d
def uniform_target(G,names):
    T={}
    for i,t in enumerate(names):
        ks=set()
        for v in G:
            jd=list(G.nodes[v][J_])
            if jd[i]>0: jd[i]-=1; ks.add(tuple(jd))
        T[t]={a+b:1.0/len(ks)**2 for a in ks for b in ks}
    return T
cm=clique_motif
def chord4(vs): return [(vs[0],vs[1]),(vs[1],vs[2]),(vs[2],vs[3]),(vs[3],vs[0]),(vs[0],vs[2])]
fams={
 'c2c3':([(2,1),(1,2),(3,1)],[15,15,15],[(lambda k:'2-clique',2,cm),(lambda k:'3-clique',3,cm)],['2-clique','3-clique']),
 'c2c4':([(2,1),(1,2),(3,1)],[16,16,16],[(lambda k:'2-clique',2,cm),(lambda k:'4-clique',4,cm)],['2-clique','4-clique']),
 'c3cyc4':([(1,1),(2,1),(1,2)],[12,12,12],[(lambda k:'3-clique',3,cm),(lambda k:'4-cycle',4,cycle_motif)],['3-clique','4-cycle']),
 'c2cyc6':([(2,1),(1,2),(3,1)],[18,18,18],[(lambda k:'2-clique',2,cm),(lambda k:'6-cycle',6,cycle_motif)],['2-clique','6-cycle']),
 'k4':([(1,),(2,),(3,)],[16,16,16],[(lambda k:'diamond',4,diamond_motif)],['diamond']),
 'only2':([(1,),(2,),(4,)],[20,20,20],[(lambda k:'2-clique',2,cm)],['2-clique']),
}
for fam,(classes,counts,tops,names) in fams.items():
    stats.clear()
    for seed in range(4):
        rng=random.Random(seed); random.seed(seed)
        G0=build(rng,classes,counts,tops)
        G=MG(); G.add_nodes_from(G0.nodes(data=True)); G.add_edges_from(G0.edges(data=True))
        T=uniform_target(G,names)
        net=Network(); net.G=G
        tm=JointExcessJointDegreeMatrices({ToolsNames.EJKS:T,ToolsNames.EDGE_NAMES:names})
        kw={ToolsNames.NETWORK:net,ToolsNames.EJKS:tm}
        if seed!=3: kw[ToolsNames.CONVERGENCE_LIMIT]=200; kw[ToolsNames.SEARCH_LIMIT]=20
        m=MarkovChainMonteCarloRewiring(kw)
        H=m.rewire(); settle(H)
        if G.log is not None or not nx.utils.graphs_equal(G,G0): stats['INPUT-MUTATED']+=1
        if set(H.nodes())!=set(G0.nodes()) or any(H.nodes[v]!=G0.nodes[v] for v in G0): stats['NODES']+=1
        if H.number_of_edges()!=G0.number_of_edges(): stats['COUNT']+=1
        if topdeg(H)!=topdeg(G0): stats['TOPDEG']+=1
        if nx.number_of_selfloops(H): stats['SELFLOOP']+=1
    print(fam,dict(stats))
