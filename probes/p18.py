import itertools, time, networkx as nx
from poly import P
from gcmpy.message_passing.equations.automated_equation import AutomatedEquation
from gcmpy.message_passing.equations.clique_equation import clique_equation
from gcmpy.message_passing.equations.chordless_cycle_equation import chordless_cycle_equation
def oracle(nodes,edges,root,phi,u):
    idx={v:i for i,v in enumerate(nodes)}; cnt={}
    m=len(edges)
    for mask in range(1<<m):
        par=list(range(len(nodes)))
        def f(x):
            while par[x]!=x: par[x]=par[par[x]]; x=par[x]
            return x
        k=0
        for i,(a,b) in enumerate(edges):
            if mask>>i&1:
                k+=1; ra,rb=f(idx[a]),f(idx[b])
                if ra!=rb: par[ra]=rb
        r=f(idx[root]); comp=frozenset(v for v in nodes if f(idx[v])==r and v!=root)
        cnt[(k,comp)]=cnt.get((k,comp),0)+1
    tot=P()
    q=1-phi
    for (k,comp),c in cnt.items():
        term=c*phi**k*q**(m-k)
        for v in comp: term=term*u[v]
        tot=tot+term
    return tot
phi=P.var('phi')
t=time.time(); n=0; bad=0
AE=AutomatedEquation()
atlas=[g for g in nx.graph_atlas_g() if 2<=g.number_of_nodes()<=5 and nx.is_connected(g)]
for gi,g in enumerate(atlas):
    u={v:P.var(f'u{v}') for v in g}
    for root in g:
        H=nx.Graph(g); H.name=f'g{gi}'; nx.set_node_attributes(H,u,'u')
        a=AE.automated_equation(H,phi,root); b=oracle(list(g),list(g.edges()),root,phi,u)
        n+=1; bad+= not (a==b)
print('AE exact',n,'bad',bad,'t',round(time.time()-t,1))
t=time.time()
for tau in range(2,7):
    g=nx.complete_graph(tau); u={v:P.var(f'u{v}') for v in g}
    a=clique_equation(tau,phi,[u[v] for v in range(1,tau)]); b=oracle(list(g),list(g.edges()),0,phi,u)
    print('clique',tau,a==b, len(a.t), round(time.time()-t,1))
for n_ in range(3,11):
    g=nx.cycle_graph(n_); uu=P.var('u')
    a=chordless_cycle_equation(n_,uu,phi); b=oracle(list(g),list(g.edges()),0,phi,{v:uu for v in g})
    print('cycle',n_,a==b)
