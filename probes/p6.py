import random, itertools, math
import networkx as nx
from gcmpy import *
def exact(edges, root, phi, u):
    nodes=set(itertools.chain(*edges)); tot=0.0
    for mask in range(1<<len(edges)):
        H=nx.Graph(); H.add_nodes_from(nodes); k=0
        for i,e in enumerate(edges):
            if mask>>i&1: H.add_edge(*e); k+=1
        comp=nx.node_connected_component(H,root)
        pr=phi**k*(1-phi)**(len(edges)-k)
        for v in comp:
            if v!=root: pr*=u[v]
        tot+=pr
    return tot
def build(rng, nm):
    # tree-like hypergraph of motifs sharing at most one vertex
    shapes=[ [(0,1)], [(0,1),(1,2),(0,2)], [(0,1),(1,2),(2,3),(3,0)], [(0,1),(1,2),(2,3),(3,0),(0,2)], list(itertools.combinations(range(4),2))]
    G=nx.Graph(); motifs=[]; nxt=0
    for m in range(nm):
        sh=rng.choice(shapes); k=1+max(itertools.chain(*sh))
        vs=[]
        # attach to up to 2 existing vertices that are in different components? keep simple: pick one existing vertex
        if nxt>0:
            vs.append(rng.randrange(nxt))
        while len(vs)<k:
            vs.append(nxt); nxt+=1
        rng.shuffle(vs)
        es=[(vs[a],vs[b]) for a,b in sh]
        motifs.append((sorted(vs),es))
        lab=f"{len(vs)}-{sorted(vs)}-{es}-{m}"
        for a,b in es:
            G.add_edge(a,b,CoverLabel=lab)
    return G,motifs
def ref(G,motifs,phi,iters=2000,tol=1e-13):
    H={(v,m):0.5 for m,(vs,es) in enumerate(motifs) for v in vs}
    memb={}
    for m,(vs,es) in enumerate(motifs):
        for v in vs: memb.setdefault(v,[]).append(m)
    for it in range(iters):
        d=0
        for m,(vs,es) in enumerate(motifs):
            for v in vs:
                u={j:math.prod(H[(j,mm)] for mm in memb[j] if mm!=m) for j in vs if j!=v}
                new=exact(es,v,phi,u); d=max(d,abs(new-H[(v,m)])); H[(v,m)]=new
        if d<tol: break
    s=sum(math.prod(H[(v,m)] for m in memb.get(v,[])) for v in G.nodes())
    return 1-s/G.order(), it
rng=random.Random(5)
for trial in range(6):
    G,motifs=build(rng, rng.randint(3,7))
    MP=MessagePassing(G, iterations=60)
    prev=-1
    for phi in [0,0.1,0.3,0.5,0.7,0.9,1.0]:
        a=MP.theoretical(phi); b,it=ref(G,motifs,phi)
        print(trial,phi,round(a,10),round(b,10),it, 'MONO-BAD' if a<prev-1e-12 else '')
        prev=a
