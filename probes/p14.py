import itertools, collections, math
from gcmpy import *
import gcmpy.gcm_algorithm.gcm_algorithm_fast as F
import gcmpy.gcm_algorithm.gcm_algorithm_custom_motifs as Cm
class Script:
    def __init__(self): self.perms=[]; self.calls=0
    def shuffle(self,x):
        p=self.perms[self.calls]; self.calls+=1
        x[:]=[x[i] for i in p]
def canon(el):
    by=collections.defaultdict(list)
    for e,t,m in zip(el.edge_list,el.topologies,el.motif_id): by[m].append((t,tuple(sorted(e))))
    return tuple(sorted(tuple(sorted(v)) for v in by.values()))
def enum(mod,alg,jds,lens):
    s=Script(); mod.random=s
    hist=collections.Counter()
    for combo in itertools.product(*[itertools.permutations(range(n)) for n in lens]):
        s.perms=list(combo); s.calls=0
        hist[canon(alg.random_clustered_graph(list(jds)))]+=1
    return hist
def oracle(jds,sizes,names,builders):
    # independent: uniform bijection stubs->slots per topology
    per=[]
    for k,(s,nm,b) in enumerate(zip(sizes,names,builders)):
        stubs=[v for v,jd in enumerate(jds) for _ in range(jd[k])]
        h=collections.Counter()
        for p in itertools.permutations(stubs):
            groups=[p[i:i+s] for i in range(0,len(p),s)]
            h[tuple(sorted(tuple(sorted((nm,tuple(sorted(e))) for e in b(list(g)))) for g in groups))]+=1
        per.append(h)
    tot=collections.Counter()
    for combo in itertools.product(*[h.items() for h in per]):
        key=tuple(sorted(itertools.chain(*[c[0] for c in combo]))); tot[key]+=math.prod(c[1] for c in combo)
    return tot
jds=[(1,1),(1,1),(2,1),(0,0),(2,0)]
sizes=[2,3]; names=['e','t']; b=[clique_motif,clique_motif]
alg=GCMAlgorithmFast({GCMAlgorithmNames.MOTIF_SIZES:sizes,GCMAlgorithmNames.EDGE_NAMES:names,GCMAlgorithmNames.BUILD_FUNCTIONS:b})
h=enum(F,alg,jds,[6,3]); o=oracle(jds,sizes,names,b)
print(len(h),sum(h.values()),h==o)
for k in list(h)[:3]: print(k,h[k])
