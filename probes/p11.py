import sys
sys.argv=['x','ok','100','2']
exec(open('p9.py').read().split("names=['2-clique','3-clique']; sizes=[2,3]")[0])
names=['2-clique','3-clique']; sizes=[2,3]
classes=[(5,1),(3,2),(1,3)]
def diag(e,names):
    return {t:round(sum(v for k,v in e.ejks[t].items() if k[:2]==k[2:]),3) for t in names}
for lam,ass in [(0.8,0.4),(0.3,0.0)]:
    rng=random.Random(1); random.seed(1)
    G=build_clean(rng,classes,[100,100,100],sizes,names,ass)
    perm=list(G.nodes()); rng.shuffle(perm)
    G=nx.relabel_nodes(G,dict(zip(G.nodes(),perm)),copy=True)
    G2=nx.Graph(); G2.add_nodes_from(sorted(G.nodes(data=True))); G2.add_edges_from(G.edges(data=True)); G=G2
    T=target(G,names,lam)
    net=Network(); net.G=G
    tm=JointExcessJointDegreeMatrices({ToolsNames.EJKS:T,ToolsNames.EDGE_NAMES:names})
    e0=ejk_of(G,names)
    for L in (200,1000,3000):
        M.MarkovChainMonteCarlo._proposal_count=0
        m=MarkovChainMonteCarloRewiring({ToolsNames.NETWORK:net,ToolsNames.EJKS:tm,ToolsNames.CONVERGENCE_LIMIT:L,ToolsNames.SEARCH_LIMIT:20})
        H=m.rewire(); e1=ejk_of(H,names)
        print(lam,ass,L,'diag0',diag(e0,names),'diag1',diag(e1,names),'d0',round(dist(e0,T,names),3),'d1',round(dist(e1,T,names),3),'props',M.MarkovChainMonteCarlo._proposal_count)
