#!/bin/sh
# Offline setup: puts icontract (pure python, from the local wheelhouse) beside the
# repository's interpreter, under /verif/.deps (git-ignored).  Idempotent.
set -e
cd "$(dirname "$0")"
if [ ! -d .deps/icontract ]; then
  rm -rf .deps.tmp
  PIP_NO_INDEX=1 /venv/bin/pip install --quiet --no-index --find-links /opt/veriftools/wheels \
      --target .deps.tmp icontract >/dev/null 2>&1 || { echo "setup: icontract not installable; invariant contracts fall back to the built-in wrapper" >&2; mkdir -p .deps.tmp; }
  rm -rf .deps && mv .deps.tmp .deps
fi
echo "setup ok"
