#!/venv/bin/python
"""Regenerates MANIFEST.json from the per-property modules present under vmon/props."""
import json, os, sys
HERE = os.path.dirname(os.path.dirname(os.path.abspath(__file__)))
sys.path.insert(0, HERE)
props = [json.loads(l) for l in open(os.path.join(HERE, "properties.jsonl"))]
TECH = {
 "C01": "runtime monitoring: recording build callbacks + RNG tap (seeded and adversarial shuffles), stub-multiset conservation oracle over the call log, call histories on one generator object with injected callback faults",
 "C02": "runtime monitoring: recording build/naming callbacks, perfect matching of motif-id groups to callback results, prescribed-name check on every row",
 "C03": "runtime monitoring with exhaustive schedule control: every permutation of every stub list scripted through the RNG tap and compared with an enumerated uniform-bijection law; chi-square on seeded runs; RNG-provenance monitor (re-seeding); interference workloads on a shared tap; block-pair mixing table at thousands of stubs",
 "C04": "runtime monitoring: set-level reference conversion, round-trip identities, monitored input graph (no mutation events)",
 "C05": "runtime monitoring: RNG tap observes the raw weighted draw and every stub placement; counting oracle for minimality, chi-square for weights, update histories on one loader object, real downstream consumers",
 "C06": "runtime monitoring: loader tables read back through both construction paths, counting callables, exact rational oracle, chi-square in sampling mode, re-create/update histories",
 "C07": "runtime monitoring: loader table against an exact rational split law from an own enumeration of admissible splits",
 "C08": "runtime monitoring: recount from the cover, sample-and-generate pipeline observed through recording callbacks",
 "C09": "runtime monitoring with schedule exploration: tie-break RNG tap, DFS over the whole tie-break tree (<= 64 leaves), exact-cover / clique / intact-clique oracle, logical progress bound",
 "C10": "runtime monitoring: label algebra by parsing, greedy-maximality against all cliques of a snapshot, scripted orders of the largest cliques, re-cover history after in-place rewiring",
 "C11": "runtime monitoring: monitored input and working graphs (event stream), per-swap settlement at every swap_condition entry against shadow state, id-independent shape clause on swaps between motifs still as given, signature classifier for the known finding, failpoints at RNG draw sites, logical budgets",
 "C12": "runtime monitoring: every created edge looked up in the target at the next quiescent point; L1 distance before/after with an independent reference extractor; known-finding classifier by workload family",
 "C13": "runtime monitoring: get_ejks hooked on the class, reference extractor from the definition, call histories incl. in-place rewiring between extractions",
 "C14": "runtime monitoring: algebraic identities evaluated in exact rational arithmetic on return values",
 "C15": "runtime monitoring with shadow values: the unmodified method runs on exact polynomials; result compared coefficient by coefficient with a brute-force 2^|E| expectation; cache-size watch over call histories",
 "C16": "runtime monitoring with shadow values (exact polynomials) + independent recurrence / brute-force counts",
 "C17": "runtime monitoring: independent fixed-point solver built on brute-force per-motif expectations, residual check on the internal message table, query histories on one object vs fresh objects",
 "C18": "runtime monitoring: monitored input graph + working-copy event stream + RNG tap give an edge-by-edge verdict per execution; chi-square on stars, two stars and a MultiGraph star; RNG-provenance monitor; interference workloads on a shared tap",
 "C19": "runtime monitoring: 50-digit closed-form oracle with a tolerance derived from the documented truncation rule; interleaved factory histories with other library features in between; typed and vector degree arguments",
 "C20": "runtime monitoring: model-based history checker (builtin set) over the public interface, scripted exhaustive draws, sparse observation, copy/pickle continuations, grow-then-shrink histories; the icontract look at the private containers is a diagnostic that only triggers a closing drain-and-refill phase",
}
checks, na = [], []
for p in props:
    pid = p["id"]
    f = os.path.join(HERE, "vmon", "props", pid.lower() + ".py")
    if not os.path.exists(f):
        na.append({"property_id": pid, "reason": "check not built yet in this session (planned in DESIGN.md section 4); nothing is claimed"})
        continue
    ns = {}
    src = open(f).read()
    import importlib
    mod = importlib.import_module("vmon.props." + pid.lower())
    man = getattr(mod, "MANIFEST", {})
    checks.append({
        "property_id": pid,
        "quick_cmd": f"./check {pid} quick",
        "thorough_cmd": f"./check {pid} thorough",
        "evidence_file": f"/verif/evidence/{pid}.json",
        "replay_cmd_template": f"./check {pid} --replay {{path}}",
        "engine": "vmon",
        "level_claimed": {"category": "exploration",
                          "text": man.get("level_text", "Held on the executions produced: the real code is run under generated, scripted and adversarial inputs/RNG outcomes while a monitor checks every observed execution against an independent oracle; evidence lists what the monitors observed."),
                          "design_ref": "DESIGN.md section 4, " + pid},
        "level_note": man.get("level_note", "; ".join(getattr(mod, "ASSUMPTIONS", []))),
        "technique": man.get("technique", TECH.get(pid, "runtime monitoring")),
    })
m = {
    "version": 1,
    "setup_cmd": "sh ./setup.sh",
    "hooks": {"guard": "PETERSTANDREWS_GCMPY_VERIF",
              "enable": "no source hooks: all instrumentation (RNG taps, monitored graphs, class-attribute wrappers, icontract invariants) is installed from /verif at import time into the working tree at $GCMPY_VERIF_REPO (default /repo); the guard variable is exported by ./check but read by nothing in /repo",
              "baseline_off_cmd": "cd /repo && /venv/bin/python -m pytest -ra -q -p no:cacheprovider --timeout=900 --continue-on-collection-errors",
              "source_commits": [], "add_only": True},
    "engines": [{"name": "vmon", "path": "/verif/vmon", "serves_properties": [c["property_id"] for c in checks],
                 "kind_free_text": "runtime monitors: RNG taps with scripted/exhaustive schedules, recording callbacks, monitored networkx graphs, model-based history checkers, exact-polynomial shadow values, icontract invariants"}],
    "checks": checks,
    "not_applicable": na,
    "notes": "All checks import gcmpy afresh from /repo's working tree in worker subprocesses on every run (no build step, no cache). Exit 0 held / 1 VIOLATION / 2 INCONCLUSIVE (monitor not reached, watchdog) / 3 harness error. Known findings: /verif/KNOWN_FINDINGS.txt.",
}
json.dump(m, open(os.path.join(HERE, "MANIFEST.json"), "w"), indent=1)
print("checks:", [c["property_id"] for c in checks], "n/a:", len(na))
