#!/venv/bin/python
"""Regenerates MANIFEST.json from the per-property modules present under vmon/props."""
import json, os, sys
HERE = os.path.dirname(os.path.dirname(os.path.abspath(__file__)))
sys.path.insert(0, HERE)
props = [json.loads(l) for l in open(os.path.join(HERE, "properties.jsonl"))]
checks, na = [], []
for p in props:
    pid = p["id"]
    f = os.path.join(HERE, "vmon", "props", pid.lower() + ".py")
    if not os.path.exists(f):
        na.append({"property_id": pid, "reason": "check not built yet in this session (planned in DESIGN.md section 4); nothing is claimed"})
        continue
    ns = {}
    src = open(f).read()
    import importlib
    mod = importlib.import_module("vmon.props." + pid.lower())
    man = getattr(mod, "MANIFEST", {})
    checks.append({
        "property_id": pid,
        "quick_cmd": f"./check {pid} quick",
        "thorough_cmd": f"./check {pid} thorough",
        "evidence_file": f"/verif/evidence/{pid}.json",
        "replay_cmd_template": f"./check {pid} --replay {{path}}",
        "engine": "vmon",
        "level_claimed": {"category": "exploration",
                          "text": man.get("level_text", "Held on the executions produced: the real code is run under generated, scripted and adversarial inputs/RNG outcomes while a monitor checks every observed execution against an independent oracle; evidence lists what the monitors observed."),
                          "design_ref": "DESIGN.md section 4, " + pid},
        "level_note": man.get("level_note", "; ".join(getattr(mod, "ASSUMPTIONS", []))),
        "technique": man.get("technique", "runtime monitoring"),
    })
m = {
    "version": 1,
    "setup_cmd": "sh ./setup.sh",
    "hooks": {"guard": "PETERSTANDREWS_GCMPY_VERIF",
              "enable": "no source hooks: all instrumentation (RNG taps, monitored graphs, class-attribute wrappers, icontract invariants) is installed from /verif at import time into the working tree at $GCMPY_VERIF_REPO (default /repo); the guard variable is exported by ./check but read by nothing in /repo",
              "baseline_off_cmd": "cd /repo && /venv/bin/python -m pytest -ra -q -p no:cacheprovider --timeout=900 --continue-on-collection-errors",
              "source_commits": [], "add_only": True},
    "engines": [{"name": "vmon", "path": "/verif/vmon", "serves_properties": [c["property_id"] for c in checks],
                 "kind_free_text": "runtime monitors: RNG taps with scripted/exhaustive schedules, recording callbacks, monitored networkx graphs, model-based history checkers, exact-polynomial shadow values, icontract invariants"}],
    "checks": checks,
    "not_applicable": na,
    "notes": "All checks import gcmpy afresh from /repo's working tree in worker subprocesses on every run (no build step, no cache). Exit 0 held / 1 VIOLATION / 2 INCONCLUSIVE (monitor not reached, watchdog) / 3 harness error. Known findings: /verif/KNOWN_FINDINGS.txt.",
}
json.dump(m, open(os.path.join(HERE, "MANIFEST.json"), "w"), indent=1)
print("checks:", [c["property_id"] for c in checks], "n/a:", len(na))
