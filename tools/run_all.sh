#!/bin/sh
# usage: tools/run_all.sh <quick|thorough> [ids...]  -- runs the checks one after another, prints a summary line each
tier=$1; shift
ids=${@:-C01 C02 C03 C04 C05 C06 C07 C08 C09 C10 C11 C12 C13 C14 C15 C16 C17 C18 C19 C20}
for id in $ids; do
  s=$(date +%s)
  out=$(./check $id $tier 2>&1); rc=$?
  e=$(date +%s)
  echo "== $id $tier exit=$rc wall=$((e-s))s seed=${VERIF_SEED:-0}"
  echo "$out" | grep -E "^\[|^VIOLATION|^INCONCLUSIVE|^KNOWN|^HARNESS|witness" | cut -c1-400
done
