#!/bin/sh
# usage: tools/eval_seedb.sh <Cxx> [tier] [notests]  -- round-b variant of eval_seed.sh (worktree /tmp/seedb_<Cxx>, output /tmp/seed_out/<Cxx>b)
id=$1; tier=${2:-quick}; suf=${SUF:-b}; wt=/tmp/seed${suf}_$id; out=/tmp/seed_out/${id}${suf}
cd $wt || exit 9
git checkout -q -- . && git clean -fdq
echo "--- ${id}${suf}: demo on unchanged tree"; timeout 300 /venv/bin/python -W ignore $out/demo.py $wt > $out/demo_unchanged.log 2>&1; echo "exit=$?"; tail -1 $out/demo_unchanged.log | cut -c1-200
git apply $out/patch.diff || { echo "PATCH DOES NOT APPLY"; exit 8; }
git diff > $out/patch.confirmed.diff; git diff --stat | tail -1
echo "--- demo on changed tree"; timeout 300 /venv/bin/python -W ignore $out/demo.py $wt > $out/demo_changed.log 2>&1; echo "exit=$?"; tail -2 $out/demo_changed.log | cut -c1-300
if [ "$3" != "notests" ]; then
echo "--- repository tests on changed tree"; /venv/bin/python -m pytest -q -p no:cacheprovider -n 6 --timeout=900 2>&1 | tail -1
fi
echo "--- check $id $tier against the changed tree"
cd /verif && GCMPY_VERIF_REPO=$wt VMON_NO_EVIDENCE=1 ./check $id $tier 2>&1 | grep -E "^\[|VIOLATION|witness|INCONCLUSIVE|HARNESS|KNOWN" | cut -c1-420 | head -6
