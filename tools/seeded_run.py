#!/venv/bin/python
"""Re-runs the kept seeded changes (/verif/seeded/<name>/) against the checks.

For each: copy /repo's working tree to a scratch directory outside /repo and /verif, apply patch.diff, run the demonstration
(must exit 1 there and 0 on the unchanged copy), run the property's quick check with GCMPY_VERIF_REPO pointing at the scratch copy
(thorough too if quick stays silent), record the outcome in meta.json["last_run"], delete the scratch copy.
usage: tools/seeded_run.py [name ...] [--tests]      (--tests also runs the repository's own suite on the changed copy)
"""
import json, os, shutil, subprocess, sys, tempfile, time
HERE = os.path.dirname(os.path.dirname(os.path.abspath(__file__)))
SEEDED = os.path.join(HERE, "seeded")

def sh(cmd, **kw):
    return subprocess.run(cmd, capture_output=True, text=True, **kw)

def run(name, tests=False):
    d = os.path.join(SEEDED, name)
    meta = json.load(open(os.path.join(d, "meta.json")))
    pid = meta["property"]
    scratch = tempfile.mkdtemp(prefix="vmon_seed_", dir="/tmp")
    out = {"at": time.strftime("%Y-%m-%d %H:%M:%S"), "repo_head": sh(["git", "-C", "/repo", "rev-parse", "--short", "HEAD"]).stdout.strip()}
    try:
        dst = os.path.join(scratch, "repo")
        shutil.copytree("/repo", dst, ignore=shutil.ignore_patterns(".git", "__pycache__", "*.pyc", "docs"))
        r = sh([sys.executable, "-W", "ignore", os.path.join(d, "demo.py"), dst], timeout=600)
        out["demo_on_unchanged"] = r.returncode
        p = sh(["patch", "-p1", "-d", dst, "-i", os.path.join(d, "patch.diff")])
        if p.returncode != 0:
            out["error"] = "patch does not apply: " + p.stdout[-300:]
            return out
        r = sh([sys.executable, "-W", "ignore", os.path.join(d, "demo.py"), dst], timeout=600)
        out["demo_on_changed"] = r.returncode
        out["demo_message"] = (r.stdout.strip().splitlines() or [""])[-1][:300]
        if tests:
            t = sh(["/venv/bin/python", "-m", "pytest", "-q", "-p", "no:cacheprovider", "-n", "6", "--timeout=900"], cwd=dst)
            out["repo_tests_on_changed"] = t.stdout.strip().splitlines()[-1]
        for tier in ("quick", "thorough"):
            env = dict(os.environ, GCMPY_VERIF_REPO=dst, VMON_NO_EVIDENCE="1")
            t0 = time.time()
            c = sh([os.path.join(HERE, "check"), pid, tier], env=env)
            lines = [l for l in c.stdout.splitlines() if l.startswith(("VIOLATION", "   witness", "INCONCLUSIVE", "HARNESS"))]
            out["check_" + tier] = {"exit": c.returncode, "wall_s": round(time.time() - t0, 1), "first": [l[:300] for l in lines[:2]]}
            if c.returncode == 1:
                break
        out["caught"] = any(out.get("check_" + t, {}).get("exit") == 1 for t in ("quick", "thorough"))
        # a change written against one property may break it only through code another property's check is anchored in
        # (meta["also_checks"]): then that check is the one expected to see it
        for other in meta.get("also_checks", []):
            if out["caught"]:
                break
            env = dict(os.environ, GCMPY_VERIF_REPO=dst, VMON_NO_EVIDENCE="1")
            c = sh([os.path.join(HERE, "check"), other, "quick"], env=env)
            lines = [l for l in c.stdout.splitlines() if l.startswith(("VIOLATION", "   witness"))]
            out["check_quick_" + other] = {"exit": c.returncode, "first": [l[:300] for l in lines[:2]]}
            out["caught"] = c.returncode == 1
        return out
    finally:
        shutil.rmtree(scratch, ignore_errors=True)
        meta["last_run"] = out
        json.dump(meta, open(os.path.join(d, "meta.json"), "w"), indent=1)

if __name__ == "__main__":
    args = [a for a in sys.argv[1:] if not a.startswith("--")]
    names = args or sorted(n for n in os.listdir(SEEDED) if os.path.isdir(os.path.join(SEEDED, n)))
    bad = 0
    for n in names:
        o = run(n, tests="--tests" in sys.argv)
        # a change whose own demonstration passes on the changed copy no longer breaks the property on the current /repo head (a later
        # fix: commit removed the mechanism it needed): that is not a miss, and it is reported as such
        if o.get("caught"):
            word = "caught " if o.get("demo_on_changed") == 1 else "caught (its demo no longer fails on the current head) "
        elif o.get("demo_on_changed") == 0 and "error" not in o:
            word = "NEUTRAL (neither its demo nor the check sees a difference on the current head) "
        else:
            word = "MISSED "
        bad += word.startswith("MISSED") or o.get("demo_on_unchanged") != 0
        print(word + n, {k: v for k, v in o.items() if k.startswith(("demo_on", "check_", "error", "repo_tests"))})
    print("%d seeded changes, %d need attention" % (len(names), bad))
    sys.exit(1 if bad else 0)
