#!/bin/sh
# usage: tools/eval_seed.sh <ID> [tier]   -- confirms a sub-agent's seeded change in its scratch worktree /tmp/seed_<ID>
# (patch applied there), then runs the property's check against that worktree.
id=$1; tier=${2:-quick}; wt=/tmp/seed_$id; out=/tmp/seed_out/$id
cd $wt || exit 9
echo "--- $id: diff stat"; git diff --stat | tail -2
git diff > /tmp/seed_out/$id/patch.confirmed.diff
echo "--- demo on changed tree"; timeout 300 /venv/bin/python -W ignore $out/demo.py $wt > /tmp/seed_out/$id/demo_changed.log 2>&1; echo "exit=$?"; tail -2 /tmp/seed_out/$id/demo_changed.log | cut -c1-300
git stash -q
echo "--- demo on unchanged tree"; timeout 300 /venv/bin/python -W ignore $out/demo.py $wt > /tmp/seed_out/$id/demo_unchanged.log 2>&1; echo "exit=$?"; tail -1 /tmp/seed_out/$id/demo_unchanged.log | cut -c1-200
git stash pop -q
if [ "$3" != "notests" ]; then
echo "--- repository tests on changed tree"; /venv/bin/python -m pytest -q -p no:cacheprovider -n 6 --timeout=900 2>&1 | tail -1
fi
echo "--- check $id $tier against the changed tree"
cd /verif && GCMPY_VERIF_REPO=$wt VMON_NO_EVIDENCE=1 ./check $id $tier 2>&1 | grep -E "^\[|VIOLATION|witness|INCONCLUSIVE|HARNESS|KNOWN" | cut -c1-420 | head -8
