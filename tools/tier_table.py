#!/venv/bin/python
"""prints the DESIGN.md 9.7 table from run logs: tools/tier_table.py <quick log> <thorough log>
(logs as written by tools/run_all.sh; a later line for the same check overrides an earlier one)"""
import re
import sys


def parse(path):
    out = {}
    cur = None
    for line in open(path, errors="replace"):
        m = re.match(r"== (C\d\d) (\w+) exit=(\d+) wall=(\d+)s seed=(\d+)", line)
        if m:
            cur = m.group(1)
            if int(m.group(5)) == 0 or cur not in out:
                out.setdefault(cur, {}).update(exit=int(m.group(3)), wall=int(m.group(4)))
            continue
        m = re.match(r"\[(C\d\d)\] tier=\w+ seed=(\d+) cases=(\d+) verdicts=(\{.*?\}) nontrivial_distinct=(\d+)", line)
        if m and (int(m.group(2)) == 0 or "cases" not in out.get(m.group(1), {})):
            out.setdefault(m.group(1), {}).update(cases=int(m.group(3)), nontrivial=int(m.group(5)))
            continue
        m = re.match(r"\[(C\d\d)\] observed: (.*)", line)
        if m and "observed" not in out.get(m.group(1), {}):
            out.setdefault(m.group(1), {})["observed"] = m.group(2).strip()
    return out


q, t = parse(sys.argv[1]), parse(sys.argv[2])
print("| id | quick cases / wall | thorough cases / wall | what the monitors observed in the quick run (first counters) |")
print("|---|---|---|---|")
for i in range(1, 21):
    pid = "C%02d" % i
    a, b = q.get(pid, {}), t.get(pid, {})
    obs = ", ".join(a.get("observed", "").split(", ")[:7])
    print("| %s | %s / %s s | %s / %s s | %s |" % (pid, a.get("cases", "?"), a.get("wall", "?"), b.get("cases", "?"), b.get("wall", "?"), obs))
