#!/venv/bin/python
"""prints the DESIGN.md table rows for one seeding round: tools/seed_table.py <suffix>"""
import json
import os
import sys

suf = sys.argv[1]
root = os.path.join(os.path.dirname(os.path.dirname(os.path.abspath(__file__))), "seeded")


def cut(s, n):
    s = " ".join(str(s).split()).replace("|", "/")
    return s if len(s) <= n else s[:n] + "..."


print("| seeded change | what it needs to manifest | before | now | what was widened |")
print("|---|---|---|---|---|")
n = c = 0
for d in sorted(os.listdir(root)):
    if not d.endswith("-" + suf):
        continue
    m = json.load(open(os.path.join(root, d, "meta.json")))
    before = m.get("caught_by_checks_before_this_change_was_seen")
    n += 1
    c += bool(before)
    first = (m.get("last_run", {}).get("check_quick", {}).get("first") or ["", ""])
    clause = ""
    for line in first:
        if '"clause":"' in line:
            clause = line.split('"clause":"')[1].split('"')[0]
            break
    print("| %s %s | %s | %s | `%s` | %s |" % (d, cut(m.get("summary", ""), 180), cut(m.get("needs_to_manifest", ""), 150),
                                            "caught" if before else "**missed**", clause, "-" if before else cut(m.get("note", ""), 260)))
print()
print("caught before widening: %d of %d" % (c, n))
