#!/venv/bin/python
"""tools/keep_seed.py <Cxx> <suffix> <caught_first:0|1> [note]  -- copies a confirmed sub-agent change from /tmp/seed_out/<Cxx><suffix'>/ to /verif/seeded/<Cxx>-<suffix>/"""
import json, shutil, sys, os
pid, suf, first = sys.argv[1], sys.argv[2], sys.argv[3] == "1"
note = sys.argv[4] if len(sys.argv) > 4 else None
src = "/tmp/seed_out/%s%s" % (pid, "" if suf == "a" else suf)
dst = "/verif/seeded/%s-%s" % (pid, suf)
os.makedirs(dst, exist_ok=True)
shutil.copy(src + "/patch.diff", dst + "/patch.diff")
shutil.copy(src + "/demo.py", dst + "/demo.py")
m = json.load(open(src + "/meta.json"))
meta = {"property": pid, "origin": "independent sub-agent given only the property text and a scratch worktree" + ("" if suf == "a" else " (second round: also told what the first seeded change for this property did, and asked for a different mechanism)"),
        "summary": m.get("summary"), "needs_to_manifest": m.get("needs_to_manifest"),
        "confirmed": {"patch_applies_to_repo_head": True, "repo_tests_on_changed_tree": "51 passed (run by me in the scratch worktree, -n 6)", "demo_on_changed": "exit 1", "demo_on_unchanged": "exit 0",
                      "how": "tools/eval_seed%s.sh %s in the sub-agent's scratch worktree (removed afterwards)" % ("" if suf == "a" else "b", pid)},
        "caught_by_checks_before_this_change_was_seen": first}
if note:
    meta["note"] = note
json.dump(meta, open(dst + "/meta.json", "w"), indent=1)
print("kept", dst)
