"""MonitoredGraph and graph helpers shared by several properties."""
import networkx as nx


class MonitoredGraph(nx.Graph):
    """nx.Graph that appends every structural mutation to a per-instance event log.
    `copy()` returns a MonitoredGraph too (networkx builds the copy with self.__class__()),
    tagged role='working' and registered with the parent, so the code under test can be handed an
    'input' instance and everything it does to the copy it works on is observable."""

    def __init__(self, incoming_graph_data=None, **attr):
        self.events = []
        self.role = "input"
        self.children = []
        self._quiet = True
        super().__init__(incoming_graph_data, **attr)
        self._quiet = False
        self.events = []

    def _ev(self, *e):
        if not getattr(self, "_quiet", False):
            self.events.append(e)

    def add_edge(self, u, v, **attr):
        self._ev("add_edge", u, v, self.has_edge(u, v) if u in self._adj else False)
        super().add_edge(u, v, **attr)

    def add_edges_from(self, ebunch, **attr):
        ebunch = list(ebunch)
        for e in ebunch:
            self._ev("add_edge", e[0], e[1], self.has_edge(e[0], e[1]) if e[0] in self._adj else False)
        q = self._quiet
        self._quiet = True
        try:
            super().add_edges_from(ebunch, **attr)
        finally:
            self._quiet = q

    def remove_edge(self, u, v):
        self._ev("remove_edge", u, v)
        super().remove_edge(u, v)

    def remove_edges_from(self, ebunch):
        ebunch = list(ebunch)
        for e in ebunch:
            if self.has_edge(e[0], e[1]):
                self._ev("remove_edge", e[0], e[1])
        q = self._quiet
        self._quiet = True
        try:
            super().remove_edges_from(ebunch)
        finally:
            self._quiet = q

    def add_node(self, n, **attr):
        self._ev("add_node", n)
        super().add_node(n, **attr)

    def add_nodes_from(self, nodes, **attr):
        nodes = list(nodes)
        for n in nodes:
            self._ev("add_node", n if not isinstance(n, tuple) else n[0])
        q = self._quiet
        self._quiet = True
        try:
            super().add_nodes_from(nodes, **attr)
        finally:
            self._quiet = q

    def remove_node(self, n):
        self._ev("remove_node", n)
        q = self._quiet
        self._quiet = True
        try:
            super().remove_node(n)
        finally:
            self._quiet = q

    def remove_nodes_from(self, nodes):
        nodes = list(nodes)
        for n in nodes:
            self._ev("remove_node", n)
        q = self._quiet
        self._quiet = True
        try:
            super().remove_nodes_from(nodes)
        finally:
            self._quiet = q

    def clear(self):
        self._ev("clear")
        super().clear()

    def clear_edges(self):
        self._ev("clear_edges")
        super().clear_edges()

    def update(self, edges=None, nodes=None):
        self._ev("update")
        super().update(edges, nodes)

    def copy(self, as_view=False):
        q = self._quiet
        g = super().copy(as_view=as_view)
        if isinstance(g, MonitoredGraph):
            g.role = "working"
            g.events = []
            g._quiet = False
            self.children.append(g)
        return g


class _CanonicalEdgeData:
    """iterable returned by G.edges(nbunch, data=...) of a CanonicalEdgesMonitoredGraph: same edges, each reported (smaller, larger)"""

    def __init__(self, view):
        self._view = view

    def __iter__(self):
        for e in self._view:
            u, v = e[0], e[1]
            try:
                swap = v < u
            except TypeError:
                swap = repr(v) < repr(u)
            yield ((v, u) + tuple(e[2:])) if swap else tuple(e)

    def __len__(self):
        return len(self._view)

    def __contains__(self, e):
        return e in self._view


class _CanonicalEdgeView(nx.classes.reportviews.EdgeView):
    __slots__ = ()

    def __iter__(self):
        return iter(_CanonicalEdgeData(nx.classes.reportviews.EdgeView.__iter__(self)))

    def __call__(self, nbunch=None, data=False, *, default=None):
        if nbunch is None and data is False:
            return self
        return _CanonicalEdgeData(nx.classes.reportviews.EdgeView.__call__(self, nbunch, data=data, default=default))

    def data(self, data=True, default=None, nbunch=None):
        return _CanonicalEdgeData(nx.classes.reportviews.EdgeView.data(self, data=data, default=default, nbunch=nbunch))


class CanonicalEdgesMonitoredGraph(MonitoredGraph):
    """a caller's nx.Graph subclass that reports every edge in ONE canonical orientation (smaller end point first), whichever end
    point it was asked about: G.edges(u) may yield (w, u).  Legitimate for an undirected graph; code that assumes "the vertex I asked
    about comes first" reads the wrong partner."""

    @property
    def edges(self):
        return _CanonicalEdgeView(self)


def snapshot(G):
    """hashable-free deep snapshot of nodes+attrs and edges+attrs for before/after comparison"""
    import copy
    nodes = {n: copy.deepcopy(dict(d)) for n, d in G.nodes(data=True)}
    edges = {}
    for u, v, d in G.edges(data=True):
        edges[(u, v) if repr(u) <= repr(v) else (v, u)] = copy.deepcopy(dict(d))
    return nodes, edges


def same_snapshot(a, b):
    return a[0] == b[0] and a[1] == b[1]


# --------------------------------------------------------------------------------------------
# clean motif network builder (input generation only; harness code, not code under test)
# --------------------------------------------------------------------------------------------

def _shape_edges(shape, vs):
    from .gen import shape_edges
    return shape_edges(shape, vs)


def build_clean_network(rng, N, families, class_jds, class_weights=None, assort=0.0, ids="shuffled", graph_cls=nx.Graph,
                        max_repair=200000, scramble=False):
    """families: [(name, shape, size)] one per topology (a custom two-name motif is given as
    (names-per-edge list, shape, size)).  class_jds: list of joint-degree tuples (one entry per topology,
    in units of motif memberships); every vertex is assigned one class.  Motifs are formed by stub
    grouping, with a fraction `assort` of every class's stubs grouped inside the class, then repaired
    by swapping single stubs until every motif has distinct vertices and no vertex pair is used twice.
    ids: 'shuffled' or 'sorted' (vertex ids ordered by class).  Returns (G, info)."""
    from gcmpy import NetworkNames as NN
    T = len(families)
    k = len(class_jds)
    w = class_weights or [1.0] * k
    cls = rng.choices(range(k), weights=w, k=N)
    if ids == "sorted":
        cls.sort()
    else:
        rng.shuffle(cls)
    want = [list(class_jds[c]) for c in cls]
    motifs = []      # (topology index, [vertices])
    for t, (name, shape, size) in enumerate(families):
        stubs = [v for v in range(N) for _ in range(want[v][t])]
        rng.shuffle(stubs)
        if assort > 0:
            inside, outside = [], []
            for v in stubs:
                (inside if rng.random() < assort else outside).append(v)
            inside.sort(key=lambda v: (cls[v], rng.random()))
            stubs = inside + outside
        elif assort < 0:
            # dis-assortative start: a fraction |assort| of the stubs is dealt round-robin over the classes, so that the
            # motifs formed from them mix classes more than chance would
            mixed, rest = [], []
            for v in stubs:
                (mixed if rng.random() < -assort else rest).append(v)
            byc = {}
            for v in mixed:
                byc.setdefault(cls[v], []).append(v)
            rr = []
            while any(byc.values()):
                for c in sorted(byc):
                    if byc[c]:
                        rr.append(byc[c].pop())
            stubs = rr + rest
        stubs = stubs[: len(stubs) - len(stubs) % size]
        for i in range(0, len(stubs), size):
            motifs.append([t, stubs[i:i + size]])
    # conflict bookkeeping
    pair_use = {}

    def edges_of(m):
        t, vs = m
        return [tuple(sorted(e)) for e in _shape_edges(families[t][1], vs)]

    def all_pairs(m):
        vs = m[1]
        return [tuple(sorted((a, b))) for i, a in enumerate(vs) for b in vs[i + 1:]]

    def conflicts(m):
        vs = m[1]
        c = len(vs) - len(set(vs))
        for p in edges_of(m):
            if p[0] == p[1] or pair_use.get(p, 0) > 1:
                c += 1
        return c

    def add(m, sign):
        for p in edges_of(m):
            pair_use[p] = pair_use.get(p, 0) + sign
            if pair_use[p] == 0:
                del pair_use[p]

    for m in motifs:
        add(m, 1)
    bad = [i for i, m in enumerate(motifs) if conflicts(m)]
    by_top = {}
    for i, m in enumerate(motifs):
        by_top.setdefault(m[0], []).append(i)
    steps = 0
    max_repair = min(max_repair, 3000 + 60 * len(motifs))
    while bad and steps < max_repair:
        steps += 1
        i = rng.choice(bad)
        m = motifs[i]
        if not conflicts(m):
            bad.remove(i)
            continue
        j = rng.choice(by_top[m[0]])
        if j == i:
            continue
        o = motifs[j]
        a, b = rng.randrange(len(m[1])), rng.randrange(len(o[1]))
        if assort != 0 and cls[m[1][a]] != cls[o[1][b]] and rng.random() < 0.9:
            continue
        before = conflicts(m) + conflicts(o)
        add(m, -1); add(o, -1)
        m[1][a], o[1][b] = o[1][b], m[1][a]
        add(m, 1); add(o, 1)
        after = conflicts(m) + conflicts(o)
        if after > before:
            add(m, -1); add(o, -1)
            m[1][a], o[1][b] = o[1][b], m[1][a]
            add(m, 1); add(o, 1)
        else:
            if conflicts(o) and j not in bad:
                bad.append(j)
            if not conflicts(m):
                bad.remove(i)
    dropped = 0
    # drop whatever could not be repaired (annotation below is recomputed from what is kept)
    keep = []
    for idx in sorted(range(len(motifs)), key=lambda q: conflicts(motifs[q])):
        m = motifs[idx]
        if conflicts(m):
            add(m, -1)
            dropped += 1
        else:
            keep.append(m)
    # a dropped motif may have un-conflicted another one only in the favourable direction; re-verify
    used = set()
    final = []
    for m in keep:
        es = edges_of(m)
        if len(set(m[1])) != len(m[1]) or any(p in used or p[0] == p[1] for p in es) or len(set(es)) != len(es):
            dropped += 1
            continue
        used.update(es)
        final.append(m)
    G = graph_cls()
    q = getattr(G, "_quiet", None)
    if q is not None:
        G._quiet = True
    order = list(range(N))
    if scramble:
        rng.shuffle(order)           # insertion order of the vertices is free
    G.add_nodes_from(order)
    colnames = []
    for name, _, _ in families:
        for nm in (name if isinstance(name, list) else [name]):
            if nm not in colnames:
                colnames.append(nm)
    deg = [[0] * len(colnames) for _ in range(N)]
    for mid, (t, vs) in enumerate(final):
        name = families[t][0]
        es = _shape_edges(families[t][1], vs)
        touched = {}
        for n_e, (a, b) in enumerate(es):
            nm = name[n_e] if isinstance(name, list) else name
            G.add_edge(a, b)
            G.edges[a, b][NN.TOPOLOGY] = nm
            G.edges[a, b][NN.MOTIF_IDS] = mid
            touched.setdefault(a, set()).add(nm)
            touched.setdefault(b, set()).add(nm)
        for v, nms in touched.items():
            for nm in nms:
                deg[v][colnames.index(nm)] += 1
    for v in range(N):
        G.nodes[v][NN.JOINT_DEGREE] = tuple(deg[v])
    if q is not None:
        G._quiet = False
        G.events = []
    info = {"motifs": len(final), "dropped": dropped, "repair_steps": steps, "classes": cls, "names": colnames,
            "off_class_vertices": sum(1 for v in range(N) if tuple(deg[v]) != tuple(class_jds[cls[v]]))}
    return G, info


def check_clean(G, families=None):
    """independent re-check that a builder output is a clean motif network (harness self-check):
    no self-loop, every motif id on distinct vertices forming one connected edge set, annotations present."""
    from gcmpy import NetworkNames as NN
    by = {}
    for u, v, d in G.edges(data=True):
        if u == v:
            return "self-loop"
        if NN.TOPOLOGY not in d or NN.MOTIF_IDS not in d:
            return "edge without annotation"
        by.setdefault(d[NN.MOTIF_IDS], []).append((u, v))
    for mid, es in by.items():
        g = nx.Graph(es)
        if not nx.is_connected(g):
            return "motif %r not connected" % (mid,)
    for v in G.nodes():
        if NN.JOINT_DEGREE not in G.nodes[v]:
            return "vertex without joint degree"
    return None


def odd_numeric_labels(rng, g, res=None, floats=True):
    """the same graph on vertex labels that are legal hashables of an unusual kind, all numeric and mutually orderable:
    'signed'   - ints around zero (-1 and -2 share a hash in CPython);
    'one-hash' - multiples of 2**61-1, which ALL hash to 0 (distinct, unequal, one hash bucket);
    'halves'   - numpy float64 half-integers 0.0, 0.5, 1.0, 1.5 ... (rows of a float edge array; int() would merge neighbours)."""
    import numpy as np
    kinds = ["signed", "one-hash"] + (["halves"] if floats else [])
    kind = rng.choice(kinds)
    nodes = list(g.nodes())
    n = len(nodes)
    if kind == "signed":
        m = {v: i - n // 2 - (1 if n > 3 else 0) for i, v in enumerate(nodes)}
    elif kind == "one-hash":
        m = {v: (i - 1) * (2 ** 61 - 1) for i, v in enumerate(nodes)}
    else:
        m = {v: np.float64(i) / 2 for i, v in enumerate(nodes)}
    h = nx.relabel_nodes(g, m, copy=True)
    if res is not None:
        res.count("graphs_on_unusual_numeric_labels")
        res.seen("unusual_label_kinds", kind)
    return kind, h
