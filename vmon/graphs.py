"""MonitoredGraph and graph helpers shared by several properties."""
import networkx as nx


class MonitoredGraph(nx.Graph):
    """nx.Graph that appends every structural mutation to a per-instance event log.
    `copy()` returns a MonitoredGraph too (networkx builds the copy with self.__class__()),
    tagged role='working' and registered with the parent, so the code under test can be handed an
    'input' instance and everything it does to the copy it works on is observable."""

    def __init__(self, incoming_graph_data=None, **attr):
        self.events = []
        self.role = "input"
        self.children = []
        self._quiet = True
        super().__init__(incoming_graph_data, **attr)
        self._quiet = False
        self.events = []

    def _ev(self, *e):
        if not getattr(self, "_quiet", False):
            self.events.append(e)

    def add_edge(self, u, v, **attr):
        self._ev("add_edge", u, v, self.has_edge(u, v) if u in self._adj else False)
        super().add_edge(u, v, **attr)

    def add_edges_from(self, ebunch, **attr):
        ebunch = list(ebunch)
        for e in ebunch:
            self._ev("add_edge", e[0], e[1], self.has_edge(e[0], e[1]) if e[0] in self._adj else False)
        q = self._quiet
        self._quiet = True
        try:
            super().add_edges_from(ebunch, **attr)
        finally:
            self._quiet = q

    def remove_edge(self, u, v):
        self._ev("remove_edge", u, v)
        super().remove_edge(u, v)

    def remove_edges_from(self, ebunch):
        ebunch = list(ebunch)
        for e in ebunch:
            if self.has_edge(e[0], e[1]):
                self._ev("remove_edge", e[0], e[1])
        q = self._quiet
        self._quiet = True
        try:
            super().remove_edges_from(ebunch)
        finally:
            self._quiet = q

    def add_node(self, n, **attr):
        self._ev("add_node", n)
        super().add_node(n, **attr)

    def add_nodes_from(self, nodes, **attr):
        nodes = list(nodes)
        for n in nodes:
            self._ev("add_node", n if not isinstance(n, tuple) else n[0])
        q = self._quiet
        self._quiet = True
        try:
            super().add_nodes_from(nodes, **attr)
        finally:
            self._quiet = q

    def remove_node(self, n):
        self._ev("remove_node", n)
        q = self._quiet
        self._quiet = True
        try:
            super().remove_node(n)
        finally:
            self._quiet = q

    def remove_nodes_from(self, nodes):
        nodes = list(nodes)
        for n in nodes:
            self._ev("remove_node", n)
        q = self._quiet
        self._quiet = True
        try:
            super().remove_nodes_from(nodes)
        finally:
            self._quiet = q

    def clear(self):
        self._ev("clear")
        super().clear()

    def clear_edges(self):
        self._ev("clear_edges")
        super().clear_edges()

    def update(self, edges=None, nodes=None):
        self._ev("update")
        super().update(edges, nodes)

    def copy(self, as_view=False):
        q = self._quiet
        g = super().copy(as_view=as_view)
        if isinstance(g, MonitoredGraph):
            g.role = "working"
            g.events = []
            g._quiet = False
            self.children.append(g)
        return g


def snapshot(G):
    """hashable-free deep snapshot of nodes+attrs and edges+attrs for before/after comparison"""
    import copy
    nodes = {n: copy.deepcopy(dict(d)) for n, d in G.nodes(data=True)}
    edges = {}
    for u, v, d in G.edges(data=True):
        edges[(u, v) if repr(u) <= repr(v) else (v, u)] = copy.deepcopy(dict(d))
    return nodes, edges


def same_snapshot(a, b):
    return a[0] == b[0] and a[1] == b[1]
