"""C14 - degree-distribution algebra is consistent and invertible.

Monitor: return values of the static conversion functions on generated distributions, matrices and
clean networks.  Oracle: the algebraic identities evaluated in exact rational arithmetic.
"""
import random
from collections import defaultdict
from fractions import Fraction

from ..common import Result, sut, digest
from ..graphs import build_clean_network

ID = "C14"
RULE = ("random joint degree distributions over 1..4 topologies (zero components, ragged supports, rational weights; with and without a key "
        "positive in every topology), topology-name lists drawn from {'2-clique','3-clique','2-clique-blue','a','tau','x-y-z', random strings} "
        "incl. lists without '2-clique' and lists where it is not first; half of the inversions are given the very dict objects the library returned (re-checked afterwards and inverted a second time); random symmetric mixing matrices; clean clique/cycle networks from the "
        "harness builder; non-trivial = >= 2 topologies and >= 3 keys; distinct = SHA-1 of the concrete distribution/matrix/network and names")
RULE += ("; rounds k-l added: " + 'network cases: in 40% an extractor given only a prefix of the names, its row sums compared with the empirical excess distributions')
RULE += '; round m: 40% of the algebra cases keep ONE dictionary object that is refilled in place with new probabilities on the same joint degrees and evaluated again (1..2 times)'
ASSUMPTIONS = ["identities compared at 1e-10", "the inversion clause is asserted only when some joint degree is positive in every topology",
               "network clause uses vertex-transitive motifs (cliques, cycles) where memberships and edge ends are proportional"]
HEADLINE = ["cases", "excess_checks", "inversion_checks", "inversion_not_applicable", "row_sum_checks", "network_checks", "mean_checks", "names_without_2-clique", "names_2-clique_not_first", "dict_order_differs_from_names", "matrices_configured_through_setters"]
REQUIRED = {t: {"excess_checks": 100, "inversion_checks": 50, "row_sum_checks": 30, "network_checks": 10, "mean_checks": 100,
                "names_without_2-clique": 30, "names_2-clique_not_first": 10, "dict_order_differs_from_names": 30, "matrices_with_more_than_128_excess_classes": 2} for t in ("quick", "thorough")}
TOL = 1e-10
POOL = ["2-clique", "3-clique", "2-clique-blue", "2-clique-red", "a", "b", "tau", "x-y-z", "4-cycle", "diamond-outer"]


def gen_cases(tier, seed):
    n = 500 if tier == "quick" else 60000
    return [{"seed": seed * 100207 + i} for i in range(n)]


def names_for(rng, T, res):
    style = rng.random()
    if style < 0.25:
        names = ["2-clique", "3-clique", "4-clique", "5-clique"][:T]
    elif style < 0.5:
        names = rng.sample([n for n in POOL if n != "2-clique"], T)
    else:
        names = rng.sample(POOL, T)
        r = rng.random()
        if r < 0.25:
            names = ["n%d" % rng.randrange(1000) + "-" + str(i) for i in range(T)]
        elif r < 0.35:
            names = [10 + i for i in range(T)]                 # names are arbitrary labels: not even strings
        elif r < 0.45:
            names = [("clique", i + 2) for i in range(T)]
    if "2-clique" not in names:
        res.count("names_without_2-clique")
    elif names[0] != "2-clique":
        res.count("names_2-clique_not_first")
    return names


def random_P(rng, T, need_positive):
    nk = rng.randint(1, 12)
    big = rng.random() < 0.06
    keys = {tuple(rng.choice([0, 0, 1, 1, 2, 3, 5] + ([300, 70000] if big else [])) for _ in range(T)) for _ in range(nk)}
    if need_positive:
        keys.add(tuple(rng.randint(1, 4) for _ in range(T)))
    keys = list(keys)
    w = [Fraction(rng.randint(1, 20), rng.randint(1, 7)) for _ in keys]
    Z = sum(w)
    return {k: x / Z for k, x in zip(keys, w)}


def close(a, b):
    return abs(float(a) - float(b)) <= TOL


def same_dist(got, want):
    want = {k: v for k, v in want.items()}
    keys = set(got) | set(want)
    for k in keys:
        if not close(got.get(k, 0.0), want.get(k, 0)):
            return k
    return None


def check_excess_and_inverse(res, rng, T, names, P, carrier=None):
    """carrier: the caller's ONE dictionary object, refilled in place with the current probabilities and handed to the helpers as it is
    (a distribution that is updated where it lives); otherwise every helper gets a fresh copy"""
    import gcmpy
    Pf = {k: float(v) for k, v in P.items()}
    ctx = {"names": names, "P": sorted(Pf.items())}
    if carrier is not None:
        carrier.update(Pf)
        for k in [k for k in carrier if k not in Pf]:
            del carrier[k]
        ctx["same_dict_object_as_in_the_previous_call"] = True
    given = (lambda: carrier) if carrier is not None else (lambda: dict(Pf))
    # mean
    mean = sut("AverageJointDegreeFromJDD", gcmpy.AverageJointDegreeFromJDD.get_average_joint_degrees, given())
    want_mean = [sum(k[i] * v for k, v in P.items()) for i in range(T)]
    res.count("mean_checks")
    if len(mean) != T or any(not close(m, w) for m, w in zip(mean, want_mean)):
        res.violate("mean-joint-degree-differs", got=list(mean), want=[float(x) for x in want_mean], ctx=ctx); return
    # excess distributions
    qs = sut("JointExcessfromJDD.get_joint_excess_distributions", gcmpy.JointExcessfromJDD.get_joint_excess_distributions, given())
    if carrier is not None and carrier != Pf:
        res.count("helpers_that_changed_the_caller's_dictionary")
    if len(qs) != T:
        res.violate("wrong-number-of-excess-distributions", got=len(qs), ctx=ctx); return
    want_q = []
    for i in range(T):
        w = {}
        if want_mean[i] > 0:
            for k, v in P.items():
                if k[i] > 0:
                    kk = list(k); kk[i] -= 1
                    w[tuple(kk)] = k[i] * v / want_mean[i]
        want_q.append(w)
        res.count("excess_checks")
        bad = same_dist(qs[i], w)
        if bad is not None:
            res.violate("excess-distribution-differs", topology=i, key=bad, got=qs[i].get(bad), want=float(w.get(bad, 0)), ctx=ctx); return
        if w and not close(sum(qs[i].values()), 1):
            res.violate("excess-distribution-does-not-sum-to-one", topology=i, total=sum(qs[i].values()), ctx=ctx); return
    # list <-> dict helpers
    qd = sut("convert_list_qks_to_dict", gcmpy.JointExcessfromJDD.convert_list_qks_to_dict, qs, list(names))
    if list(qd) != list(names) or any(qd[n] is not qs[i] and qd[n] != qs[i] for i, n in enumerate(names)):
        res.violate("list-to-dict-conversion-wrong", ctx=ctx); return
    ql = sut("convert_dict_qks_to_list", gcmpy.JointExcessfromJDD.convert_dict_qks_to_list, qd, list(names))
    if ql != qs:
        res.violate("dict-to-list-conversion-wrong", ctx=ctx); return
    # inversion
    if any(all(x > 0 for x in k) for k in P):
        res.count("inversion_checks")
        order = list(names)
        if rng.random() < 0.5:
            rng.shuffle(order)          # a mapping has no order: the list of names says which column a topology is
            if order != list(names):
                res.count("dict_order_differs_from_names")
        own = rng.random() < 0.5
        if own:
            res.count("inversions_of_the_library's_own_dicts")
        # either copies, or the very dict objects the library returned above (a caller derives q, inverts it, and goes on using q)
        arg = {n: (qd[n] if own else dict(qd[n])) for n in order}
        inv = sut("JointDegreeFromExcess.get_joint_degree_distribution", gcmpy.JointDegreeFromExcess.get_joint_degree_distribution, arg, list(names))
        nz = {k: v for k, v in P.items() if any(k)}
        Z = sum(nz.values())
        want = {k: v / Z for k, v in nz.items()}
        bad = same_dist(inv, want)
        if bad is not None:
            res.violate("inversion-does-not-return-P", key=bad, got=inv.get(bad), want=float(want.get(bad, 0)), ctx=ctx); return
        # the excess distributions that were inverted are still the excess distributions of P, and inverting them again returns P again
        for i, n in enumerate(names):
            bad = same_dist(arg[n], want_q[i])
            if bad is not None:
                res.violate("excess-distribution-differs", topology=i, key=bad, got=arg[n].get(bad), want=float(want_q[i].get(bad, 0)),
                            after="they were handed to JointDegreeFromExcess.get_joint_degree_distribution", own_dicts=own, ctx=ctx); return
        inv2 = sut("JointDegreeFromExcess.get_joint_degree_distribution (again)", gcmpy.JointDegreeFromExcess.get_joint_degree_distribution, arg, list(names))
        res.count("second_inversions")
        bad = same_dist(inv2, want)
        if bad is not None:
            res.violate("inversion-does-not-return-P", key=bad, got=inv2.get(bad), want=float(want.get(bad, 0)), second_inversion_of_the_same_dicts=True, ctx=ctx); return
    else:
        res.count("inversion_not_applicable")


def check_row_sums(res, rng, T, names):
    import gcmpy
    from gcmpy import ToolsNames as TN
    mats, want = {}, {}
    big = rng.random() < 0.06
    if big:
        # scale: a heterogeneous network's matrix has hundreds of excess classes, and it is filled in edge order, not row by row
        res.count("matrices_with_more_than_128_excess_classes")
    for n in names:
        ks = list({tuple(rng.choice([0, 1, 2, 3]) for _ in range(T)) for _ in range(rng.randint(1, 6))})
        if big:
            ks = list({tuple(rng.randrange(0, 40) for _ in range(T)) for _ in range(rng.randint(140, 230))})
        m = defaultdict(Fraction)
        for _ in range(rng.randint(1, 15) if not big else 4 * len(ks)):
            a, b = rng.choice(ks), rng.choice(ks)
            w = Fraction(rng.randint(1, 9), 2)
            m[a + b] += w
            m[b + a] += w
        Z = sum(m.values())
        mats[n] = {k: float(v / Z) for k, v in m.items()}
        r = defaultdict(Fraction)
        for k, v in m.items():
            r[k[:T]] += v / Z
        want[n] = dict(r)
    order = list(names)
    if rng.random() < 0.5:
        rng.shuffle(order)
        if order != list(names):
            res.count("dict_order_differs_from_names")
    if rng.random() < 0.6:
        M = sut("JointExcessJointDegreeMatrices(params)", gcmpy.JointExcessJointDegreeMatrices, {TN.EJKS: {n: mats[n] for n in order}, TN.EDGE_NAMES: list(names)})
    else:
        # the same object configured through its public setters, in either order
        res.count("matrices_configured_through_setters")

        def _configure():
            m = gcmpy.JointExcessJointDegreeMatrices()
            if rng.random() < 0.5:
                m.topology_names = list(names); m.ejks = {n: mats[n] for n in order}
            else:
                m.ejks = {n: mats[n] for n in order}; m.topology_names = list(names)
            m.get_excess_degree_keys()
            return m
        M = sut("JointExcessJointDegreeMatrices() + setters", _configure)
    got = sut("JointExcessFromEjk.get_excess_joint_distributions", gcmpy.JointExcessFromEjk.get_excess_joint_distributions, M)
    res.count("row_sum_checks")
    for n in names:
        bad = same_dist(got.get(n, {}), want[n])
        if bad is not None:
            res.violate("row-sums-differ", topology=n, key=bad, got=got.get(n, {}).get(bad), want=float(want[n].get(bad, 0)), names=names,
                        matrix=sorted(mats[n].items())[:12]); return
    return mats


def _same_mats(a, b):
    try:
        return set(a) == set(b) and all(set(a[t]) == set(b[t]) and all(abs(a[t][k] - b[t][k]) <= 1e-12 for k in b[t]) for t in b)
    except Exception:
        return False


def check_network(res, rng, names_pool):
    import gcmpy
    from gcmpy import ToolsNames as TN
    fams_all = [("clique", 2), ("clique", 3), ("cycle", 4), ("clique", 4), ("cycle", 5)]
    T = rng.choice([1, 2, 2, 3])
    shapes = rng.sample(fams_all, T)
    names = names_for(rng, T, res)
    fams = [(names[i], shapes[i][0], shapes[i][1]) for i in range(T)]
    k = rng.choice([2, 3])
    classes = [tuple(rng.choice([1, 1, 2, 3]) for _ in range(T)) for _ in range(k)]
    G, info = build_clean_network(rng, rng.randint(20, 80), fams, classes, assort=rng.choice([0.0, 0.6]))
    if G.number_of_edges() == 0:
        return names
    P = sut("JointDegreeDistributionFromNetwork", gcmpy.JointDegreeDistributionFromNetwork.get_joint_degree_distribution, G)
    n = G.number_of_nodes()
    hist = defaultdict(int)
    from gcmpy import NetworkNames as NN
    for v in G.nodes():
        hist[tuple(G.nodes[v][NN.JOINT_DEGREE])] += 1
    bad = same_dist(P, {kk: Fraction(c, n) for kk, c in hist.items()})
    res.count("network_checks")
    if bad is not None:
        res.violate("network-joint-degree-histogram-differs", key=bad, got=P.get(bad), want=hist.get(bad, 0) / n); return names
    ex = sut("JointExcessJointDegree", gcmpy.JointExcessJointDegree, {TN.NETWORK: G, TN.EDGE_NAMES: list(names)})
    mats = sut("get_ejks", ex.get_ejks)
    rows = sut("get_excess_joint_distributions(network matrices)", gcmpy.JointExcessFromEjk.get_excess_joint_distributions, mats)
    import copy as _copy
    first_entries = _copy.deepcopy(sut("ejks", lambda: mats.ejks))
    qs = sut("get_joint_excess_distributions(network jdd)", gcmpy.JointExcessfromJDD.get_joint_excess_distributions, P)
    for i, nme in enumerate(names):
        bad = same_dist(rows.get(nme, {}), qs[i])
        if bad is not None:
            res.violate("network-row-sums-differ-from-excess-of-empirical-jdd", topology=nme, key=bad, row=rows.get(nme, {}).get(bad), q=qs[i].get(bad),
                        names=names, shapes=shapes, classes=classes); return names
    if len(names) >= 2 and rng.random() < 0.4:
        # an extractor that is asked for a PREFIX of the annotated topologies only (the vertices' joint degrees keep every slot): the row sums
        # of its matrices are still those topologies' excess distributions of the network's empirical joint degree distribution
        m = rng.randint(1, len(names) - 1)
        exp = sut("JointExcessJointDegree(prefix of the names)", gcmpy.JointExcessJointDegree, {TN.NETWORK: G, TN.EDGE_NAMES: list(names[:m])})
        matsp = sut("get_ejks (prefix of the names)", exp.get_ejks)
        rowsp = sut("get_excess_joint_distributions(prefix matrices)", gcmpy.JointExcessFromEjk.get_excess_joint_distributions, matsp)
        res.count("network_checks_with_a_prefix_of_the_names")
        for i, nme in enumerate(names[:m]):
            bad = same_dist(rowsp.get(nme, {}), qs[i])
            if bad is not None:
                res.violate("network-row-sums-differ-from-excess-of-empirical-jdd", topology=nme, key=bad, row=rowsp.get(nme, {}).get(bad), q=qs[i].get(bad),
                            names=names, names_given_to_the_extractor=names[:m], shapes=shapes, classes=classes); return names
    if rng.random() < 0.5 and G.number_of_edges() >= 4:
        # history: the caller keeps the matrices it got, the network is edited in place (degree-preserving swaps inside one topology:
        # every joint degree stays, the mixing changes), the extractor is asked again - the matrices obtained FIRST still describe the
        # network they were taken from (their row sums are still that network's excess distributions)
        swapped = 0
        for _ in range(60):
            es = list(G.edges())
            (a, b), (c, d) = rng.sample(es, 2)
            if len({a, b, c, d}) < 4 or G.has_edge(a, d) or G.has_edge(c, b):
                continue
            d1, d2 = dict(G.edges[a, b]), dict(G.edges[c, d])
            if d1[NN.TOPOLOGY] != d2[NN.TOPOLOGY]:
                continue
            G.remove_edge(a, b); G.remove_edge(c, d)
            G.add_edge(a, d); G.edges[a, d].update(d1)
            G.add_edge(c, b); G.edges[c, b].update(d2)
            swapped += 1
            if swapped >= 6:
                break
        if swapped:
            sut("get_ejks (again, after the network was edited in place)", ex.get_ejks)
            res.count("first_matrices_rechecked_after_a_second_extraction")
            rows1 = sut("get_excess_joint_distributions(the matrices obtained first)", gcmpy.JointExcessFromEjk.get_excess_joint_distributions, mats)
            for i, nme in enumerate(names):
                bad = same_dist(rows1.get(nme, {}), rows.get(nme, {}))
                if bad is not None:
                    res.violate("matrices-obtained-earlier-changed-when-the-extractor-was-asked-again", topology=nme, key=bad, before=rows.get(nme, {}).get(bad),
                                now=rows1.get(nme, {}).get(bad), names=names); return names
            # (row sums are invariant under these swaps; the matrices themselves are compared entry by entry)
            if not _same_mats(sut("ejks of the first result", lambda: mats.ejks), first_entries):
                res.violate("matrices-obtained-earlier-changed-when-the-extractor-was-asked-again", names=names, entry_level=True); return names
    return names


def run_case(case):
    res = Result()
    rng = random.Random(case["seed"])
    res.count("cases")
    T = rng.choice([1, 2, 2, 3, 3, 4])
    kind = rng.choice(["algebra", "algebra", "algebra", "rows", "network"])
    if kind == "algebra":
        names = names_for(rng, T, res)
        P = random_P(rng, T, need_positive=rng.random() < 0.7)
        if rng.random() < 0.4:
            # one dictionary object that lives on: evaluated, then given new probabilities on the same joint degrees IN PLACE, evaluated again
            carrier = {}
            check_excess_and_inverse(res, rng, T, names, P, carrier=carrier)
            for _ in range(rng.choice([1, 2])):
                if res.verdict != "held":
                    break
                w = [Fraction(rng.randint(1, 20), rng.randint(1, 7)) for _ in P]
                Z = sum(w)
                P = {k: x / Z for k, x in zip(list(P), w)}
                res.count("re-evaluations_of_one_dictionary_object_after_an_in_place_update")
                check_excess_and_inverse(res, rng, T, names, P, carrier=carrier)
        else:
            check_excess_and_inverse(res, rng, T, names, P)
        res.nontrivial = T >= 2 and len(P) >= 3
        res.sample = {"kind": kind, "names": names, "P": sorted((k, str(v)) for k, v in P.items())}
    elif kind == "rows":
        names = names_for(rng, T, res)
        mats = check_row_sums(res, rng, T, names)
        res.nontrivial = T >= 2 and mats is not None and sum(len(m) for m in mats.values()) >= 3
        res.sample = {"kind": kind, "names": names, "matrices": {n: sorted(m.items())[:10] for n, m in (mats or {}).items()}}
    else:
        names = check_network(res, rng, POOL)
        res.nontrivial = len(names) >= 2
        res.sample = {"kind": kind, "names": names, "seed": case["seed"]}
    res.digest = digest(res.sample)
    return res
