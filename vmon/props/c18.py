"""C18 - bond percolation keeps each edge independently with probability phi.

Monitor: the input is a MonitoredGraph (no event may appear on it); its copy() - the graph the
helper really works on - logs which edges were removed; a RandomTap logs every uniform draw.
Oracle: exact at phi in {0,1}; multiple of 1/N in [1/N,1]; per execution, the returned value must be
the largest-component fraction of (input minus the edges the working copy dropped) and, when the
draw pattern is one uniform per edge, edge i must be dropped iff draw_i > phi; binomial law on
stars and the max-of-two-binomials law on two disjoint stars by chi-square; scripted draws 0.0 /
1-2^-53 (both legal outcomes) must keep / drop every edge.
"""
import random
from collections import Counter

import networkx as nx

from ..common import Result, sut, digest
from ..taps import RandomTap, installed, reseed_bits
from ..interfere import interfere
from ..graphs import MonitoredGraph, snapshot, same_snapshot
from ..stats import two_stage, binom_pmf

ID = "C18"
RULE = ("graphs: G(n,p) n<=60 (6%: 260..700 vertices) incl. edgeless and disconnected ones, trees, cycles, complete graphs, stars, unions of many components of assorted sizes in arbitrary order; vertex labels ints, strings (20%) or of mixed type - int / str / tuple / float / frozenset in one graph (15%; half of the star samples have a string hub); phi on a grid "
        "{0, 0.05, .15, .3, .5, .7, .8, .95, 1} + random; seeded draws and scripted draws (all 0.0 / all 1-2^-53); statistical cases: star with "
        "12 leaves and two disjoint stars with 6 leaves each at phi in {.15,.5,.8}, and a MultiGraph star whose leaves hang on two parallel edges each (phi in {.3,.6}); non-trivial = >= 2 edges and 0 < phi < 1; "
        "distinct = SHA-1 of (graph, phi, schedule)")
RULE += ("; rounds k-l added: " + '15% of the graphs (<= 60 vertices) on signed / one-hash / half-integer labels')
RULE += '; round n: position cases - one bond first / last / in the middle of more than 2 000 self-loops at phi 0.02..0.04, 1 200 (quick) / 4 000 runs, exact binomial tail (violation below 1e-9)'
ASSUMPTIONS = ["per-edge exactness needs the draw pattern 'one random.random() per edge of the copy, in edge order' (observed per run; otherwise only the "
               "structural and statistical clauses decide)", "chi-square two-stage protocol"]
HEADLINE = ["graphs_with_labels_of_mixed_type", "calls", "per_edge_exact_checks", "edges_decided", "structure_checks", "phi0_checks", "phi1_checks", "scripted_zero", "scripted_one",
            "input_events", "repercolations_after_in_place_edit", "star_samples", "two_star_samples", "multigraph_star_samples", "chi2_tests", "chi2_escalations", "draw_pattern_missing"]
REQUIRED = {t: {"retained_subgraph_decided": 200, "phi0_checks": 10, "phi1_checks": 10, "scripted_zero": 10, "scripted_one": 10,
                "star_samples": 4000, "two_star_samples": 4000, "multigraph_star_samples": 4000} for t in ("quick", "thorough")}
PHIS = [0.0, 0.05, 0.15, 0.3, 0.5, 0.7, 0.8, 0.95, 1.0]


def finalize(counters, sets, tier):
    counters["retained_subgraph_decided"] = counters.get("structure_checks", 0) + counters.get("retained_subgraph_confirmed_from_the_draw_log", 0)
    return {}


def gen_cases(tier, seed):
    n = 300 if tier == "quick" else 5000
    cases = [{"kind": "graph", "seed": seed * 100213 + i} for i in range(n)]
    # scale: long chains of bonds (rings, ladders, ring lattices with thousands of vertices) at phi = 1 and just below
    for i in range(4 if tier == "quick" else 40):
        cases.append({"kind": "graph", "seed": seed * 100213 + 800000 + i, "large": True, "_cost": 6})
    R = 4000 if tier == "quick" else 40000
    for phi in (0.15, 0.5, 0.8):
        cases.append({"kind": "star", "phi": phi, "R": R, "seed": seed * 31 + 1, "_cost": 30})
        cases.append({"kind": "twostars", "phi": phi, "R": R, "seed": seed * 31 + 2, "_cost": 30})
    for phi in (0.3, 0.6):
        # parallel edges are edges too: a MultiGraph star whose every leaf hangs on two parallel edges
        cases.append({"kind": "multistar", "phi": phi, "R": R, "seed": seed * 31 + 3, "_cost": 30})
    # every bond alike, wherever it stands: ONE distinguished bond (first, last or in the middle of the graph's edge order) among more than
    # two thousand self-loops, at a small phi - the answer is 2/N exactly when that bond was retained
    for i, where in enumerate(("first", "last", "middle") if tier == "quick" else ("first", "last", "middle") * 3):
        cases.append({"kind": "position", "where": where, "phi": (0.04, 0.02, 0.03)[i % 3], "R": 1200 if tier == "quick" else 4000, "seed": seed * 31 + 40 + i, "_cost": 40})
    return cases


def run_position(case, res, rng):
    import gcmpy
    K = rng.randint(2100, 2700)
    g = nx.Graph()
    loops = [(v, v) for v in range(2, K + 2)]
    where = case["where"]
    cut = {"first": 0, "last": K, "middle": K // 2}[where]
    g.add_nodes_from(range(K + 2))
    g.add_edges_from(loops[:cut])
    g.add_edge(0, 1)
    g.add_edges_from(loops[cut:])
    N = g.number_of_nodes()
    phi, R = case["phi"], case["R"]
    tap = RandomTap(seed=case["seed"], keep_log=False)
    hits = 0
    with installed(tap, "bond"):
        for _ in range(R):
            s_ = sut("bond_percolate", gcmpy.bond_percolate, g, phi)
            res.count("calls")
            if abs(s_ * N - 2) < 1e-9:
                hits += 1
            elif abs(s_ * N - 1) > 1e-9:
                res.violate("not-a-possible-largest-component-fraction", got=s_, N=N, graph="one bond %s among %d self-loops" % (where, K)); return
    res.count("position_samples", R)
    # exact two-sided binomial tail of `hits` under Binomial(R, phi)
    from ..stats import binom_pmf
    pmf = binom_pmf(R, phi)
    p_obs = pmf[hits]
    tail = sum(q for q in pmf if q <= p_obs * (1 + 1e-9))
    res.nontrivial = True
    res.digest = digest(["position", where, case["seed"]])
    res.sample = {"kind": "position", "where": where, "phi": phi, "R": R, "retained": hits, "expected": R * phi, "two_sided_tail": tail}
    if tail < 1e-9:
        res.violate("a-bond's-retention-frequency-depends-on-where-it-stands-in-the-graph", where=where, edges=K + 1, phi=phi, runs=R, retained=hits,
                    expected=R * phi, exact_two_sided_binomial_tail=tail)


def make_graph(rng):
    k = rng.choice(["gnp", "gnp", "gnp", "tree", "cycle", "complete", "star", "union", "edgeless", "single", "manycomp"])
    n = rng.randint(1, 60)
    if rng.random() < 0.06:
        n = rng.randint(260, 700)        # component sizes / vertex counts beyond 255
    if k == "gnp":
        g = nx.gnp_random_graph(n, rng.choice([0.02, 0.05, 0.1, 0.3, 0.6]) if n <= 60 else rng.choice([0.002, 0.004, 0.01]), seed=rng.randrange(1 << 30))
    elif k == "tree":
        g = nx.Graph(); g.add_node(0)
        for v in range(1, n):
            g.add_edge(v, rng.randrange(v))
    elif k == "cycle":
        g = nx.cycle_graph(max(3, n))
    elif k == "complete":
        g = nx.complete_graph(min(n, 12) if n <= 60 else 40)
    elif k == "star":
        g = nx.star_graph(max(1, n - 1))
    elif k == "union":
        g = nx.disjoint_union(nx.complete_graph(rng.randint(1, 6)), nx.path_graph(rng.randint(1, 10)))
        g = nx.disjoint_union(g, nx.empty_graph(rng.randint(0, 4)))
    elif k == "manycomp":
        # many components of assorted sizes in arbitrary order (the largest need not come first nor hold half of the vertices)
        g = nx.Graph()
        sizes = [rng.randint(1, 9) for _ in range(rng.randint(3, 18))]
        nxt = 0
        for s_ in sizes:
            h = rng.choice([nx.complete_graph, nx.path_graph, nx.cycle_graph if s_ >= 3 else nx.path_graph])(s_)
            g = nx.disjoint_union(g, h)
    elif k == "edgeless":
        g = nx.empty_graph(n)
    else:
        g = nx.empty_graph(1)
    if rng.random() < 0.15 and g.number_of_nodes() >= 1:
        # "all non-empty graphs": self-loops are bonds too (they never connect anything), and a dense graph may have a vertex left out
        for v in rng.sample(list(g.nodes()), rng.randint(1, min(6, g.number_of_nodes()))):
            g.add_edge(v, v)
        if rng.random() < 0.6:
            g.add_node(max(g.nodes()) + 1)
        g.graph["self_loops"] = True
    # relabel sometimes to non-contiguous / non-int ids
    r = rng.random()
    if r < 0.2:
        g = nx.relabel_nodes(g, {v: "v%d" % v for v in g.nodes()})
    elif r < 0.35:
        # vertex labels are arbitrary hashables and need not share a type: strings next to ints, tuples (grid coordinates), frozensets
        kinds = rng.sample(["int", "str", "tuple", "float", "frozenset"], rng.randint(2, 3))
        def lab(v):
            t = kinds[v % len(kinds)]
            return v if t == "int" else "n%d" % v if t == "str" else (v, v + 1) if t == "tuple" else v + 0.5 if t == "float" else frozenset([v, -1])
        g = nx.relabel_nodes(g, {v: lab(v) for v in g.nodes()})
        g.graph["mixed_labels"] = True
    elif r < 0.5 and g.number_of_nodes() <= 60:
        from ..graphs import odd_numeric_labels
        lk, g2 = odd_numeric_labels(rng, g)
        g2.graph.update(g.graph)
        g2.graph["unusual_labels"] = lk
        g = g2
    if rng.random() < 0.5:
        h = nx.Graph()
        ns = list(g.nodes()); rng.shuffle(ns)
        es = [e if rng.random() < 0.5 else (e[1], e[0]) for e in g.edges()]; rng.shuffle(es)
        h.add_nodes_from(ns); h.add_edges_from(es)
        g = h
    return k, g


def largest_fraction(nodes, edges):
    h = nx.Graph()
    h.add_nodes_from(nodes)
    h.add_edges_from(edges)
    return max(len(c) for c in nx.connected_components(h)) / h.number_of_nodes()


def one_call(res, g, phi, tap, ctx, mg=None):
    import gcmpy
    if mg is None:
        mg = MonitoredGraph(g)
    else:
        del mg.events[:]
        del mg.children[:]
    snap = snapshot(mg)
    N = mg.number_of_nodes()
    edges = list(mg.edges())
    phi_arg = phi
    if len(edges) % 5 == 2:
        import numpy as np
        phi_arg = np.float64(phi)         # an element of a phi grid built with numpy
        res.count("phi_given_as_numpy_float")
    with installed(tap, "bond"):
        n0 = len(tap.log)
        S = sut("bond_percolate", gcmpy.bond_percolate, mg, phi_arg)
    res.count("calls")
    draws = [e[2] for e in tap.log[n0:] if e[0] == "random"]
    res.count("input_events", len(mg.events))
    if mg.events or not same_snapshot(snap, snapshot(mg)):
        res.violate("input-graph-mutated", events=mg.events[:5], ctx=ctx); return None
    try:
        S = float(S)
    except Exception:
        res.violate("return-value-not-a-number", got=repr(S), ctx=ctx); return None
    b = reseed_bits(tap)
    if b is not None and 0 < phi < 1 and min(len(edges), 128) > b + 1:     # 128 bits and more are as good as the source itself
        res.violate("percolation-reseeds-its-random-source-with-fewer-bits-than-the-edge-configurations-need", seed_bits=b, edges=len(edges),
                    note="each of the 2**|E| retained-edge sets has positive probability under independent retention; after the re-seed at most 2**%d of them can occur" % b, ctx=ctx)
        return None
    k = S * N
    if not (abs(k - round(k)) < 1e-9 and 1 <= round(k) <= N):
        res.violate("return-value-not-a-multiple-of-1/N-in-range", got=S, N=N, ctx=ctx); return None
    # which edges did the working copy lose?
    work = [c for c in mg.children if c.role == "working"]
    if len(work) == 1:
        removed = {frozenset((e[1], e[2])) for e in work[0].events if e[0] == "remove_edge"}
        node_ev = [e for e in work[0].events if e[0] in ("remove_node", "add_node", "add_edge", "clear")]
        kept = [e for e in edges if frozenset(e) not in removed]
        res.count("structure_checks")
        if node_ev:
            res.violate("working-copy-changed-other-than-by-dropping-edges", events=node_ev[:4], ctx=ctx); return None
        want = largest_fraction(list(mg.nodes()), kept)
        if abs(S - want) > 1e-12:
            res.violate("return-value-is-not-the-largest-component-fraction-of-the-retained-subgraph", got=S, want=want, dropped=len(removed), ctx=ctx); return None
        if len(draws) == len(edges) and len(tap.log) - n0 == len(edges):
            res.count("per_edge_exact_checks")
            res.count("edges_decided", len(edges))
            exp_removed = {frozenset(e) for e, r in zip(edges, draws) if r > phi}
            # r == phi is the measure-zero boundary: either decision is accepted
            boundary = {frozenset(e) for e, r in zip(edges, draws) if r == phi}
            if (removed ^ exp_removed) - boundary:
                res.violate("edge-fate-not-decided-by-its-own-uniform-draw-against-phi",
                            wrong=[(sorted(map(str, x))) for x in list((removed ^ exp_removed) - boundary)[:4]], ctx=ctx); return None
        else:
            res.count("draw_pattern_missing")
    else:
        # no working copy to watch (the implementation does not copy-and-delete): if it still draws one uniform per edge, the
        # retained subgraph follows from the draw log under the natural reading "i-th draw decides the i-th edge"; a match is an
        # exact confirmation, a mismatch proves nothing (the reading may be wrong) and is left to the other clauses
        res.count("no_working_copy_seen")
        if len(draws) == len(edges) and len(tap.log) - n0 == len(edges):
            kept = [e for e, r in zip(edges, draws) if r <= phi]
            want = largest_fraction(list(mg.nodes()), kept)
            if abs(S - want) <= 1e-12:
                res.count("retained_subgraph_confirmed_from_the_draw_log")
            else:
                res.count("draw_log_reading_did_not_explain_the_value")
    return S


def run_case(case):
    import gcmpy
    res = Result()
    rng = random.Random(case["seed"])
    if case["kind"] == "position":
        run_position(case, res, rng)
        return res
    if case["kind"] == "graph":
        kind, g = make_graph(rng)
        if case.get("large"):
            n = rng.randint(1500, 6000)
            kind = rng.choice(["ring", "circular-ladder", "ring-lattice", "path", "grid"])
            g = {"ring": lambda: nx.cycle_graph(n), "circular-ladder": lambda: nx.circular_ladder_graph(n // 2),
                 "ring-lattice": lambda: nx.watts_strogatz_graph(n, 4, 0, seed=1), "path": lambda: nx.path_graph(n),
                 "grid": lambda: nx.convert_node_labels_to_integers(nx.grid_2d_graph(40, n // 40))}[kind]()
            res.count("large_chain_graphs")
        N, E = g.number_of_nodes(), g.number_of_edges()
        if g.graph.get("mixed_labels"):
            res.count("graphs_with_labels_of_mixed_type")
        if g.graph.get("self_loops") or nx.number_of_selfloops(g):
            res.count("graphs_with_self_loops")
        ctx0 = {"graph_kind": kind, "n": N, "edges": [tuple(e) for e in list(g.edges())[:30]]}
        full = largest_fraction(list(g.nodes()), list(g.edges()))
        nt = False
        for phi in ([0.0, 1.0] + rng.sample(PHIS, 3) + [rng.random()] if not case.get("large") else [1.0, 0.9995, 0.0, 0.5]):
            ctx = dict(ctx0, phi=phi)
            S = one_call(res, g, phi, RandomTap(seed=rng.randrange(1 << 30)), dict(ctx, schedule="seeded"))
            if S is None:
                break
            if phi == 1.0:
                res.count("phi1_checks")
                if abs(S - full) > 1e-12:
                    res.violate("phi=1-is-not-the-exact-largest-component-fraction", got=S, want=full, ctx=ctx); break
            if phi == 0.0:
                res.count("phi0_checks")
                if abs(S - 1.0 / N) > 1e-12:
                    res.violate("phi=0-is-not-1/N", got=S, N=N, ctx=ctx); break
            if 0 < phi < 1 and E >= 2:
                nt = True
            if phi > 0:
                S0 = one_call(res, g, phi, RandomTap(preset={"random": "zero"}), dict(ctx, schedule="all draws 0.0"))
                if S0 is None:
                    break
                res.count("scripted_zero")
                if abs(S0 - full) > 1e-12:
                    res.violate("draws-of-0.0-did-not-keep-every-edge", got=S0, want=full, ctx=ctx); break
            if phi < 1:
                S1 = one_call(res, g, phi, RandomTap(preset={"random": "one"}), dict(ctx, schedule="all draws 1-2^-53"))
                if S1 is None:
                    break
                res.count("scripted_one")
                if abs(S1 - 1.0 / N) > 1e-12:
                    res.violate("draws-just-below-1-did-not-drop-every-edge", got=S1, N=N, ctx=ctx); break
        # history: the SAME graph object, edited in place so that the number of edges stays the same, percolated again
        if res.verdict == "held" and E >= 2 and rng.random() < 0.5:
            mg = MonitoredGraph(g)
            for rep in range(3):
                phi = rng.choice([0.0, 0.3, 0.6, 1.0])
                S = one_call(res, g, phi, RandomTap(seed=rng.randrange(1 << 30)), dict(ctx0, phi=phi, schedule="seeded", history="call %d on one graph object" % rep), mg=mg)
                if S is None:
                    break
                if phi == 0.0 and abs(S - 1.0 / N) > 1e-12:
                    res.violate("phi=0-is-not-1/N", got=S, N=N, ctx=dict(ctx0, history="after in-place edits keeping the edge count")); break
                if phi == 1.0:
                    fullnow = largest_fraction(list(mg.nodes()), list(mg.edges()))
                    if abs(S - fullnow) > 1e-12:
                        res.violate("phi=1-is-not-the-exact-largest-component-fraction", got=S, want=fullnow, ctx=dict(ctx0, history="after in-place edits")); break
                # move edges in place (count unchanged)
                mg._quiet = True
                es = list(mg.edges())
                ns = list(mg.nodes())
                for _ in range(rng.randint(1, 4)):
                    a, b = rng.choice(es)
                    c, d = rng.choice(ns), rng.choice(ns)
                    if c != d and not mg.has_edge(c, d) and mg.has_edge(a, b):
                        mg.remove_edge(a, b); mg.add_edge(c, d)
                        es = list(mg.edges())
                mg._quiet = False
                res.count("repercolations_after_in_place_edit")
        res.nontrivial = nt
        res.sample = ctx0
        res.digest = digest([sorted(map(str, g.nodes())), sorted(sorted(map(str, e)) for e in g.edges()), case["seed"]])
        return res
    phi, R = case["phi"], case["R"]
    if case["kind"] == "multistar":
        M = 12
        g = nx.MultiGraph()
        for leaf in range(1, M + 1):
            g.add_edge(0, leaf); g.add_edge(0, leaf)
        pm = binom_pmf(M, 1 - (1 - phi) ** 2)
        expected = {k: pm[k] for k in range(M + 1)}
        N = M + 1
        key = "multigraph_star_samples"
    elif case["kind"] == "star":
        M = 12
        g = nx.star_graph(M)
        if case["seed"] % 2:
            g = nx.relabel_nodes(g, {0: "hub"})      # labels of mixed type
        pm = binom_pmf(M, phi)
        expected = {k: pm[k] for k in range(M + 1)}
        N = M + 1
        key = "star_samples"
    else:
        M = 6
        g = nx.disjoint_union(nx.star_graph(M), nx.star_graph(M))
        pm = binom_pmf(M, phi)
        cdf = [sum(pm[:k + 1]) for k in range(M + 1)]
        expected = {k: cdf[k] ** 2 - (cdf[k - 1] ** 2 if k else 0.0) for k in range(M + 1)}
        N = 2 * (M + 1)
        key = "two_star_samples"

    interfered = int(phi * 100) % 2 == 0
    irng = random.Random(case["seed"] + 5)
    if interfered:
        res.count("sampling_cases_with_other_features_used_between_calls")

    def draw(n, stage):
        tap = RandomTap(seed=case["seed"] * 17 + stage + int(phi * 1000), keep_log=False)
        c = Counter()
        with installed(tap, "bond"):
            for _ in range(n):
                if interfered:
                    # the caller refreshes a cover / generates a graph / uses a DrawSet between two percolation runs
                    interfere(irng, tap, None, only=("MPCC", "EECC", "GCMAlgorithmFast", "DrawSet"), k=1)
                S = sut("bond_percolate", gcmpy.bond_percolate, g, phi)
                c[int(round(S * N)) - 1] += 1
                res.count(key)
        return dict(c)
    ok, info = two_stage(draw, expected, R, res)
    if not ok:
        res.violate("largest-component-law-rejects-independent-retention-with-probability-phi", kind=case["kind"], phi=phi, info=info)
    res.nontrivial = True
    res.sample = {"kind": case["kind"], "phi": phi, "R": R}
    res.digest = digest(res.sample)
    return res
