"""C15 - automated motif equation equals the exact bond-percolation expectation.

Monitor: shadow-value execution - the unmodified AutomatedEquation.automated_equation is run with
phi and the per-vertex u given as exact polynomials (ExactPoly), so its return value is a polynomial
that must be IDENTICAL, coefficient by coefficient, to the brute-force expectation over all 2^|E|
edge states.  Call histories on one evaluator object (many motifs / roots / phi / u, floats and
polynomials interleaved, re-queries) are each compared with the oracle; the structural caches are
sized before and after every call (hits vs misses).
"""
import random

import networkx as nx

from ..common import MonitorAlarm, Result, sut, digest, SutRaised, tight_stack_call
from ..exactpoly import P, percolation_poly, percolation_counts, percolation_value, percolation_abs, NONINTEGRAL_FLOATS, ShadowUnsupported
from ..graphfam import atlas, atlas_graph

ID = "C15"
RULE = ("motifs: every connected atlas graph with <= 5 vertices plus every connected 6-vertex graph with <= 7 edges (quick) / every connected graph with <= 6 vertices (thorough), each with every focal vertex, random connected "
        "7-vertex graphs with <= 11 edges (thorough), cliques <= K6, cycles <= C12, stars, paths, and relabelled copies with non-contiguous "
        "vertex ids; histories: one evaluator, a shuffled stream of (motif, root, phi, u) queries mixing exact-polynomial and float arguments "
        "with re-queries of the same motif under other roots / phi / u, every answer compared with the brute-force oracle; a quarter of the queries put the SAME value (one polynomial variable, or one float) on every vertex; 60% of the history queries hand over a motif graph OBJECT kept from earlier queries with its u attributes overwritten in place, and re-query it at the same phi and focal vertex after such an update; non-trivial = "
        ">= 3 vertices and (a cycle or >= 2 distinct u in the answer); distinct = SHA-1 of (edge set, roots, history)")
RULE += ("; rounds k-l added: " + "vertex ids up to 10**6 (beyond CPython's small-int cache) and the focal vertex handed over as a freshly built equal object on every call")
RULE += '; round n: half of the re-queries use a phi that nearly coincides with the previous one (relative offset 1e-11 .. 4e-7); a vectorised phi call that is refused is only counted'
ASSUMPTIONS = ["all motifs on one evaluator are distinctly named (as the property stipulates)", "polynomial identity after full expansion; float spot checks at 1e-12",
               "oracle: enumeration of all 2^|E| occupation states with a bitmask component search"]
HEADLINE = ["queries", "poly_identities", "float_checks", "motifs", "roots", "history_cases", "cross_evaluator_name_reuse", "queries_on_a_kept_motif_object", "requeries_after_in_place_u_update", "calls_aborted_by_injected_recursion_limit", "vectorised_phi_calls", "cache_hits", "cache_misses", "shadow_unsupported", "nonintegral_float_coercions"]
REQUIRED = {"quick": {"poly_identities_or_numeric": 150, "float_checks": 100, "history_cases": 5, "cache_hits": 20, "requeries_after_in_place_u_update": 10, "queries_with_equal_u_on_all_vertices": 100},
            "thorough": {"poly_identities_or_numeric": 800, "float_checks": 500, "history_cases": 50, "cache_hits": 200, "requeries_after_in_place_u_update": 100, "queries_with_equal_u_on_all_vertices": 500}}
SHARD_TIMEOUT = {"quick": 900, "thorough": 10800}


def gen_cases(tier, seed):
    cases = []
    maxn = 5 if tier == "quick" else 6
    ids = [i for i in atlas(maxn) if nx.is_connected(atlas_graph(i)) and atlas_graph(i).number_of_nodes() >= 2]
    for i in ids:
        g = atlas_graph(i)
        cases.append({"kind": "atlas", "atlas": i, "seed": seed, "_cost": 2 ** g.number_of_edges() / 64.0})
    if tier == "quick":
        for i in atlas(6):
            g = atlas_graph(i)
            if g.number_of_nodes() == 6 and g.number_of_edges() <= 7 and nx.is_connected(g):
                cases.append({"kind": "atlas", "atlas": i, "seed": seed, "_cost": 4})
    special = [("clique", 6), ("cycle", 8), ("cycle", 12), ("star", 7), ("path", 8), ("clique", 5)]
    if tier == "thorough":
        special += [("cycle", 10), ("cycle", 11), ("wheel", 6), ("star", 9), ("path", 12)]
        for j in range(150):
            cases.append({"kind": "rand7", "seed": seed * 100279 + j, "_cost": 40})
    for name, n in special:
        cases.append({"kind": "special", "shape": name, "n": n, "seed": seed, "_cost": 2 ** (n * (n - 1) // 2 if name == "clique" else n) / 64.0})
    nh = 8 if tier == "quick" else 80
    for j in range(nh):
        cases.append({"kind": "history", "seed": seed * 100291 + j, "queries": 25 if tier == "quick" else 60, "maxn": maxn, "_cost": 30})
    return cases


def build(case, rng):
    k = case["kind"]
    if k == "atlas":
        g = atlas_graph(case["atlas"]); d = "atlas#%d" % case["atlas"]
    elif k == "rand7":
        while True:
            g = nx.gnm_random_graph(7, rng.randint(6, 11), seed=rng.randrange(1 << 30))
            if nx.is_connected(g):
                break
        d = "gnm7"
    else:
        n = case["n"]
        g = {"clique": nx.complete_graph, "cycle": nx.cycle_graph, "star": lambda n: nx.star_graph(n - 1), "path": nx.path_graph,
             "wheel": nx.wheel_graph}[case["shape"]](n)
        d = "%s%d" % (case["shape"], n)
    g = nx.Graph(g)
    r = rng.random()
    if r < 0.4:
        labels = rng.sample(range(0, 200) if rng.random() < 0.5 else range(300, 10 ** 6), g.number_of_nodes())
        g = nx.relabel_nodes(g, dict(zip(list(g.nodes()), labels)))
    elif r < 0.55:
        g = nx.relabel_nodes(g, {v: "v%d" % v for v in g.nodes()})      # vertex ids need not be ints
    if rng.random() < 0.5:
        # insertion order / edge orientation of the motif graph are free
        h = nx.Graph()
        ns = list(g.nodes()); rng.shuffle(ns)
        es = [e if rng.random() < 0.5 else (e[1], e[0]) for e in g.edges()]; rng.shuffle(es)
        h.add_nodes_from(ns); h.add_edges_from(es)
        g = h
    return d, g


class CacheWatch:
    def __init__(self, ae, res):
        self.ae, self.res = ae, res

    def size(self):
        a = getattr(self.ae, "_connected_subgraphs", None)
        b = getattr(self.ae, "_edge_combinations", None)
        return (len(a) if isinstance(a, dict) else None, len(b) if isinstance(b, dict) else None)

    def around(self, fn):
        s0 = self.size()
        r = fn()
        s1 = self.size()
        if None not in s0 and None not in s1:
            if s1 == s0:
                self.res.count("cache_hits")
            else:
                self.res.count("cache_misses")
        return r


def motif_object(g, name):
    H = nx.Graph(name=name)
    H.add_nodes_from(g.nodes())
    H.add_edges_from(g.edges())
    return H


def _fresh(root):
    """the focal vertex as a caller computes it anew for every call: EQUAL to the graph's node, not the same object (ints beyond CPython's
    small-int cache, strings built at run time)"""
    if isinstance(root, int) and not isinstance(root, bool):
        return int(str(root))
    if isinstance(root, str):
        return (root + "_")[:-1]
    return root


def query(res, ae, watch, g, name, root, mode, rng, oracle_cache, ctx, H=None, phi=None, out=None):
    """one call of the real method + comparison with the oracle; returns False on violation.  H: a motif graph OBJECT kept by the
    caller between calls (its 'u' attributes are overwritten in place, as a message-passing sweep does); phi: reuse this value"""
    if H is None:
        H = motif_object(g, name)
    nodes = list(g.nodes())
    res.count("queries")
    if mode == "poly":
        common = rng.random() < 0.25       # every vertex carries the SAME value (a homogeneous network): one variable u for all
        if common:
            res.count("queries_with_equal_u_on_all_vertices")
        for v in nodes:
            H.nodes[v]["u"] = P.var("u" if common else "u%s" % v)
        try:
            got = watch.around(lambda: sut("automated_equation(poly)", ae.automated_equation, H, P.var("phi"), _fresh(root)))
        except SutRaised as e:
            if not isinstance(e.exc, ShadowUnsupported):
                raise
            # this tree computes in a way exact polynomials cannot follow: the numeric part decides, with more points
            res.count("shadow_unsupported")
            for _ in range(8):
                if not query(res, ae, watch, g, name, root, "float", rng, oracle_cache, ctx):
                    return False
            return True
        key = ("poly", root, common)
        if key not in oracle_cache:
            oracle_cache[key] = percolation_poly(nodes, list(g.edges()), root, common_u="u" if common else None)
        want = oracle_cache[key]
        res.count("poly_identities")
        if not isinstance(got, P):
            got = P.const(got) if isinstance(got, (int, float)) else got
        if not isinstance(got, P) or got.t != want.t:
            res.violate("automated-equation-is-not-the-percolation-expectation(polynomial identity)", root=root,
                        differing_terms=(got.diff_sample(want) if isinstance(got, P) else repr(got)[:200]), terms_got=getattr(got, "nterms", lambda: None)(),
                        terms_want=want.nterms(), ctx=ctx)
            return False
    else:
        if phi is None:
            phi = rng.choice([0.0, 1.0, 0.5, rng.random(), rng.random(), 2.0, -0.5, 0.25, 0.009, 0.003, 0.97, 1e-4])
        if out is not None:
            out["phi"] = phi
        # "all real phi and u": include values where a shortcut could branch (0, 1, 2, -1, and phi*u == 1 exactly)
        us = {v: rng.choice([0.0, 1.0, rng.random(), rng.random(), 2.0, -1.0, (1.0 / phi if phi else 1.0)]) for v in nodes}
        if rng.random() < 0.25:
            x = rng.choice([rng.random(), rng.random(), 0.651, 0.0, 1.0, 2.0])
            us = {v: x for v in nodes}          # homogeneous values (what a regular network's fixed point looks like)
            res.count("queries_with_equal_u_on_all_vertices")
        for v in nodes:
            H.nodes[v]["u"] = us[v]
        key = ("counts", root)
        if key not in oracle_cache:
            oracle_cache[key] = percolation_counts(nodes, list(g.edges()), root)
        counts, m = oracle_cache[key]
        if rng.random() < 0.15:
            # a vectorised call: phi as a numpy array (a whole phi grid evaluated at once); each component must be the scalar answer
            import numpy as np
            grid = [phi, rng.random(), rng.choice([0.0, 1.0, 0.5, rng.random()])]
            res.count("vectorised_phi_calls")
            try:
                gotv = watch.around(lambda: ae.automated_equation(H, np.array(grid, dtype=float), _fresh(root)))
            except MonitorAlarm:
                raise
            except Exception:      # noqa: BLE001 - a whole grid at once is a convenience the property does not promise: a refusal is only counted
                res.count("vectorised_phi_calls_refused")
                gotv = None
            try:
                vals = [float(x) for x in np.asarray(gotv, dtype=float).ravel()] if gotv is not None else None
            except Exception:
                vals = None
            if gotv is not None:
                wants = [percolation_value(counts, m, root, ph, us) for ph in grid]
                if vals is None or len(vals) != len(grid) or any(
                        not (abs(a - b) <= 1e-12 * max(4, m) * max(1.0, percolation_abs(counts, m, root, ph, us))) for a, b, ph in zip(vals, wants, grid)):
                    res.violate("automated-equation-differs-from-expectation(float)", root=root, phi=grid, u=us, got=repr(gotv)[:200], want=wants, vectorised=True, ctx=ctx)
                    return False
                res.count("float_checks", len(grid))
                return True
        got = watch.around(lambda: sut("automated_equation(float)", ae.automated_equation, H, phi, _fresh(root)))
        want = percolation_value(counts, m, root, phi, us)
        res.count("float_checks")
        # tolerance from the conditioning of the sum (arguments outside [0,1] make the terms alternate and cancel)
        scale = max(1.0, percolation_abs(counts, m, root, phi, us))
        if not (abs(float(got) - want) <= 1e-12 * max(4, m) * scale):
            res.violate("automated-equation-differs-from-expectation(float)", root=root, phi=phi, u=us, got=float(got), want=want, ctx=ctx)
            return False
    return True


def run_case(case):
    from gcmpy.message_passing.equations.automated_equation import AutomatedEquation
    res = Result()
    rng = random.Random(case["seed"] * 31 + case.get("atlas", 0) + case.get("n", 0))
    n0 = NONINTEGRAL_FLOATS[0]
    if case["kind"] != "history":
        d, g = build(case, rng)
        ctx = {"motif": d, "edges": sorted(map(tuple, (sorted(e, key=str) for e in g.edges())), key=str)}
        res.count("motifs")
        res.seen("edge_counts", g.number_of_edges())
        shared = sut("AutomatedEquation()", AutomatedEquation)
        watch = CacheWatch(shared, res)
        roots = list(g.nodes())
        if case["kind"] in ("special", "rand7") and g.number_of_edges() > 9:
            roots = rng.sample(roots, 1 if g.number_of_edges() > 12 else 2)
        oc = {}
        for root in roots:
            res.count("roots")
            per_root_cache = {}
            # shared evaluator (same name, other roots evaluated before) and a fresh one
            if not query(res, shared, watch, g, "m-" + d, root, "poly", rng, per_root_cache, ctx):
                break
            fresh = sut("AutomatedEquation()", AutomatedEquation) if g.number_of_edges() <= 12 else shared
            if not query(res, fresh, CacheWatch(fresh, res), g, "m-" + d, root, "float", rng, per_root_cache, ctx):
                break
            if not query(res, shared, watch, g, "m-" + d, root, "float", rng, per_root_cache, ctx):
                break
        cyc = g.number_of_edges() >= g.number_of_nodes()
        res.nontrivial = g.number_of_nodes() >= 3 and (cyc or g.number_of_nodes() >= 3)
        res.sample = dict(ctx, roots=roots)
        res.digest = digest(res.sample)
    else:
        res.count("history_cases")
        ids = [i for i in atlas(case["maxn"]) if nx.is_connected(atlas_graph(i)) and 3 <= atlas_graph(i).number_of_nodes() and atlas_graph(i).number_of_edges() <= 8]
        motifs = []
        for j in range(rng.randint(3, 6)):
            i = rng.choice(ids)
            g = nx.Graph(atlas_graph(i))
            if rng.random() < 0.5:
                g = nx.relabel_nodes(g, dict(zip(list(g.nodes()), rng.sample(range(50) if rng.random() < 0.5 else range(300, 10 ** 6), g.number_of_nodes()))))
            motifs.append(("h%d-atlas%d" % (j, i), g, {}))
        ae = sut("AutomatedEquation()", AutomatedEquation)
        watch = CacheWatch(ae, res)
        hist = []
        kept = {}       # motif name -> the graph OBJECT handed over again and again, its u attributes refreshed in place
        for q in range(case["queries"]):
            name, g, oc = rng.choice(motifs)
            root = rng.choice(list(g.nodes()))
            if rng.random() < 0.2:
                # injected fault: the call is made with only a few frames of stack left, so that it is aborted by RecursionError
                # somewhere inside the library; the caller catches it and asks again - the answer must be the exact one (an
                # aborted call must not leave half-filled state behind on the evaluator)
                H0 = motif_object(g, name)
                for v in g.nodes():
                    H0.nodes[v]["u"] = 0.5
                aborted = tight_stack_call(lambda: ae.automated_equation(H0, 0.5, root), rng.randint(3, 14))[0] == "aborted"
                hist.append((name, root, "aborted-by-RecursionError" if aborted else "tight-stack-but-completed"))
                res.count("calls_aborted_by_injected_recursion_limit" if aborted else "tight_stack_calls_completed")
            mode = rng.choice(["poly", "float", "float"])
            hist.append((name, root, mode))
            H = None
            if rng.random() < 0.6:
                H = kept.setdefault(name, motif_object(g, name))
                res.count("queries_on_a_kept_motif_object")
            ctxq = {"history_so_far": hist[-8:], "motif": name, "edges": sorted(map(tuple, map(sorted, g.edges()))), "same_graph_object_as_before": H is not None}
            out = {}
            if not query(res, ae, watch, g, name, root, mode, rng, oc, ctxq, H=H, out=out):
                break
            if H is not None and mode == "float" and rng.random() < 0.6:
                # the next sweep: same object, same focal vertex, same phi - only the u values on the vertices have changed
                res.count("requeries_after_in_place_u_update")
                hist.append((name, root, "float-again"))
                ph2 = out.get("phi")
                if ph2 and rng.random() < 0.5:
                    # ... or at a phi that NEARLY coincides with the one just used (the next step of a fine sweep or of a bisection)
                    ph2 = ph2 * (1 + rng.choice([3e-9, -2e-9, 4e-7, 1e-11]))
                    res.count("requeries_at_a_nearly_coincident_phi")
                if not query(res, ae, watch, g, name, root, "float", rng, oc, dict(ctxq, requery_same_object_phi_root_after_u_update=True), H=H, phi=ph2):
                    break
        # a second evaluator object in the same process that reuses the first one's motif NAMES for other graphs
        # (names only have to be distinct per evaluator: MessagePassing names its motifs "<focal>-<id>" on every network)
        if res.verdict == "held":
            ae2 = sut("AutomatedEquation() (second evaluator)", AutomatedEquation)
            watch2 = CacheWatch(ae2, res)
            names = [n for n, _, _ in motifs]
            graphs2 = [g for _, g, _ in motifs]
            rng.shuffle(graphs2)
            for name, g2 in zip(names, graphs2):
                res.count("cross_evaluator_name_reuse")
                for root in rng.sample(list(g2.nodes()), min(2, g2.number_of_nodes())):
                    if not query(res, ae2, watch2, g2, name, root, rng.choice(["poly", "float"]), rng, {},
                                 {"second_evaluator_reuses_name": name, "edges": sorted(map(tuple, (sorted(e, key=str) for e in g2.edges())), key=str)}):
                        break
                if res.verdict != "held":
                    break
        res.nontrivial = True
        res.sample = {"motifs": [(n, sorted(map(tuple, map(sorted, g.edges())))) for n, g, _ in motifs], "history": hist[:30]}
        res.digest = digest(res.sample)
    res.counters["nonintegral_float_coercions"] = NONINTEGRAL_FLOATS[0] - n0
    return res


def finalize(counters, sets, tier):
    counters["poly_identities_or_numeric"] = counters.get("poly_identities", 0) + counters.get("shadow_unsupported", 0)
    return {"edge_counts_seen": sorted(map(int, sets.get("edge_counts", ()))),"explanation_of_identity": "answers are compared as fully expanded polynomials in phi and u_v (all coefficients), not at sample points"}
