"""C19 - built-in degree distributions are the probability mass functions they name.

Monitor: the callables returned by the four factories are evaluated over their support for
generated parameter points; oracle: closed forms in 50-digit decimal arithmetic, zeta / polylog by
direct summation plus an Euler-Maclaurin tail.  The tolerance for the two truncated normalisers is
*derived* from the documented truncation rule (terms below 1e-6 dropped), not chosen.
"""
import hashlib
import math
import random
from decimal import Decimal, getcontext

from ..common import Result, sut, digest
from ..interfere import interfere

getcontext().prec = 50

ID = "C19"
RULE = ("parameter points: exponential a in (0.01,5], poisson mean in (0.05,30] (k<=120), power law alpha in [2,14] (float and int typed), "
        "cut-off power law alpha in [2,6] x kappa in [0.02,500] (log-uniform; kappa below 1/ln(1e6), where even the first series term is below 1e-6, included); grids (incl. alpha=2, large kappa) + seeded random; plus call histories: 4..8 callables created up front with near-equal, integer and repeated "
        "parameters and evaluated interleaved, factories called positionally, by keyword or mixed (names read from the signature), always with pairs that differ only in a keyword-passed parameter; "
        "one case = one parameter point evaluated over its whole summed support; every point is non-trivial; "
        "distinct = SHA-1 of (distribution, parameters)")
RULE += ("; rounds k-l added: " + 'exponential rates 40, 709, 710, 745, 746, 800, 5000; vector calls p(array) where the function accepts them (entries of in-support degrees compared with the scalar values; arrays starting, ending or interleaved with an out-of-support degree, uint8, float-typed, 2-d)')
RULE += '; round m: keyword arguments in another order than the signature'
ASSUMPTIONS = ["oracle: 50-digit decimal closed forms; zeta/polylog by direct summation + Euler-Maclaurin tail",
               "tolerance for power laws = 1.5 * (mass of all series terms below 1e-6) / exact normaliser + 1e-12; closed forms 1e-12 relative",
               "Poisson evaluated for k <= 120 only (float overflow of k! beyond 170 is outside what is asserted)"]
HEADLINE = ["points", "pointwise_decimal_checks", "pointwise_float_checks", "normalisation_checks", "exponential", "poisson", "power_law", "scale_free_cut_off", "history_callables", "history_evaluations", "factory_calls_with_keywords", "far_tail_evaluations", "typed_degree_checks", "vector_calls", "vector_entries_checked", "vector_calls_refused"]
REQUIRED = {t: {"exponential": 5, "poisson": 5, "power_law": 5, "scale_free_cut_off": 5, "normalisation_checks": 20, "history_evaluations": 200, "vector_entries_checked": 1000}
            for t in ("quick", "thorough")}
TOL_SERIES = 1e-6
KMAX_POWER = 10000


def gen_cases(tier, seed):
    rng = random.Random(seed * 7919 + 19)
    n = 50 if tier == "quick" else 1250
    cases = []
    small = [1e-5, 2e-4, 5e-4, 9.99e-4, 1e-3, 3e-3]      # "a > 0": mean degrees in the hundreds and thousands are rates like these
    large = [40.0, 709.0, 710.0, 745.0, 746.0, 800, 5000.0]      # ... and "a > 0" has no upper end: exp(a) leaves the floats at a = 709.78, exp(-a) at 745.13
    for a in [0.01 + 1e-9, 0.05, 0.5, 1.0, 2.0, 5.0, 1, 2, 5] + small + large + [rng.uniform(0.01, 5) if rng.random() < 0.8 else math.exp(rng.uniform(math.log(1e-5), math.log(1e-2)))
                                                                        for _ in range(n - 22)]:
        cases.append({"dist": "exponential", "params": [a]})
    for m in [0.05 + 1e-9, 0.5, 1.0, 2.0, 7.3, 30.0, 1, 2, 7, 30] + [rng.uniform(0.05, 30) for _ in range(n - 10)]:
        cases.append({"dist": "poisson", "params": [m]})
    for al in [2.0, 2.0 + 1e-9, 2.5, 3.0, 4.0, 6.0, 2, 3, 5, 8, 9, 12, 14, 8.0, 13.5] + [rng.uniform(2, 6) for _ in range(n - 20)] + [rng.uniform(6, 14) for _ in range(5)]:
        cases.append({"dist": "power_law", "params": [al], "_cost": 3})
    grid = [(2.0, 500.0), (2.0, 0.5), (6.0, 500.0), (3.0, 10.0), (2.5, 100.0), (2.0, 50.0), (2.0, 0.03), (4.0, 0.07), (3.0, 0.073), (2.5, 0.2)]
    grid += [(2, 5), (3, 50), (8, 10), (12, 2.5), (9, 100)]       # integer-typed parameters are parameters too
    for al, ka in grid + [(rng.uniform(2, 6), math.exp(rng.uniform(math.log(0.02), math.log(500)))) for _ in range(n - 18)] + [(rng.uniform(6, 14), math.exp(rng.uniform(math.log(0.02), math.log(500)))) for _ in range(3)]:
        cases.append({"dist": "scale_free_cut_off", "params": [al, ka], "_cost": 3})
    # call histories: many callables created up front (near-equal parameters, ints, repeats), evaluated interleaved
    nh = 8 if tier == "quick" else 200
    for i in range(nh):
        cases.append({"dist": "history", "params": [seed * 100379 + i], "_cost": 4})
    return cases


def D(x):
    return Decimal(x)


def zeta_exact(s):
    """sum_{k>=1} k^-s for s >= 2: direct to N then Euler-Maclaurin tail (error << 1e-20)."""
    N = 2000
    sD = D(s)
    tot = sum((D(k).ln() * -sD).exp() for k in range(1, N))
    Nd = D(N)
    tail = Nd ** (1 - sD) / (sD - 1) + Nd ** (-sD) / 2 + sD * Nd ** (-sD - 1) / 12 \
        - sD * (sD + 1) * (sD + 2) * Nd ** (-sD - 3) / 720
    return tot + tail


def powersum_tail_from(s, K):
    """sum_{k>=K} k^-s (Euler-Maclaurin), K >= 10."""
    sD, Kd = D(s), D(K)
    return Kd ** (1 - sD) / (sD - 1) + Kd ** (-sD) / 2 + sD * Kd ** (-sD - 1) / 12 \
        - sD * (sD + 1) * (sD + 2) * Kd ** (-sD - 3) / 720


def polylog_terms(s, kappa, K=None):
    """yield (k, term) of z^k / k^s with z = exp(-1/kappa), exactly in decimal, until negligible."""
    sD = D(s)
    invk = D(1) / D(kappa)
    k = 1
    while True:
        t = (-(D(k) * invk) - sD * D(k).ln()).exp()
        yield k, t
        if t < D("1e-45") and (K is None or k > K):
            return
        k += 1


def make(res, dist, params, style):
    """calls the factory the way a caller may: all positional, all keywords, or the first positional and the rest by keyword"""
    import gcmpy
    import inspect
    fac = getattr(gcmpy, dist)
    if style != "positional":
        try:
            names = [n for n, q in inspect.signature(fac).parameters.items() if q.kind in (q.POSITIONAL_OR_KEYWORD, q.KEYWORD_ONLY)]
        except (TypeError, ValueError):
            names = []
        if len(names) >= len(params):
            cut = 0 if style == "keyword" else 1
            if cut < len(params):
                res.count("factory_calls_with_keywords")
                items = list(zip(names[cut:], params[cut:]))
                if len(items) > 1 and (len(repr(params)) + len(dist)) % 2:
                    items.reverse()          # keyword arguments have no order: kappa=..., alpha=... is the same call
                    res.count("keyword_calls_in_another_order_than_the_signature")
                kw = dict(items)
                return sut(f"{dist}(*{tuple(params[:cut])}, **{kw})", fac, *params[:cut], **kw)
    return sut(f"{dist}{tuple(params)}", fac, *params)


def check_point(res, dist, params):
    style = ["positional", "positional", "keyword", "mixed"][int(hashlib.sha1(repr((dist, params)).encode()).hexdigest(), 16) % 4]
    p = make(res, dist, params, style)
    res.count(dist)
    res.count("points")
    ctx = {"dist": dist, "params": params}

    def val(k):
        v = sut(f"{dist}{tuple(params)}({k})", p, k)
        v = float(v)
        if not (v >= 0.0) or math.isnan(v):
            res.violate("negative-or-nan-value", k=k, value=v, ctx=ctx)
        return v

    if dist == "exponential":
        a = D(params[0])
        exact = lambda k: (1 - (-a).exp()) * (-a * k).exp()
        ks = list(range(0, 200)) + [500, 1000]
        # 1 - exp(-a) cancels for small rates: ANY float evaluation of the named formula carries a relative error of about eps / a there
        tol = 1e-12 + 4 * 2.22e-16 / min(float(params[0]), 1.0)
        lib = {k: val(k) for k in ks}
        for k in ks:
            e = exact(k)
            res.count("pointwise_decimal_checks")
            if not math.isfinite(lib[k]):
                res.violate("value-is-not-a-finite-number", k=k, got=repr(lib[k]), exact=float(e), ctx=ctx)
                return
            if abs(D(lib[k]) - e) > D(tol) * e + D("1e-300"):
                res.violate("value-differs-from-exact-pmf", k=k, got=lib[k], exact=float(e), tol=tol, ctx=ctx)
                return
        K = 199
        s = math.fsum(lib[k] for k in range(0, K + 1))
        tail = float((-a * (K + 1)).exp())
        res.count("normalisation_checks")
        if abs(s + tail - 1.0) > 1e-10:
            res.violate("does-not-sum-to-one", partial=s, exact_tail=tail, ctx=ctx)
        return
    if dist == "poisson":
        m = D(params[0])
        ks = list(range(0, 121))
        lib = {k: val(k) for k in ks}
        tol = 1e-12
        for k in ks:
            e = (-m).exp() * m ** k / D(math.factorial(k))
            res.count("pointwise_decimal_checks")
            if abs(D(lib[k]) - e) > D(tol) * e + D("1e-300"):
                res.violate("value-differs-from-exact-pmf", k=k, got=lib[k], exact=float(e), tol=tol, ctx=ctx)
                return
        s = math.fsum(lib.values())
        tail = 1 - sum((-m).exp() * m ** k / D(math.factorial(k)) for k in ks)
        res.count("normalisation_checks")
        if abs(s + float(tail) - 1.0) > 1e-10:
            res.violate("does-not-sum-to-one", partial=s, exact_tail=float(tail), ctx=ctx)
        return
    if dist == "power_law":
        al = params[0]
        Z = zeta_exact(al)
        # mass of all terms below the documented series tolerance: k^-al < 1e-6  <=>  k > 10^(6/al)
        k0 = int(math.floor(10 ** (6.0 / al))) + 1
        while k0 > 1 and (k0 - 1) ** (-al) < TOL_SERIES:
            k0 -= 1
        while k0 ** (-al) >= TOL_SERIES:
            k0 += 1
        tau = powersum_tail_from(al, k0) if k0 >= 10 else Z - sum((D(k).ln() * -D(al)).exp() for k in range(1, k0))
        tol = float(D("1.5") * tau / Z) + 1e-12
        ks_dec = list(range(1, 40)) + [97, 1000, KMAX_POWER]
        for k in ks_dec:
            e = (D(k).ln() * -D(al)).exp() / Z
            v = val(k)
            res.count("pointwise_decimal_checks")
            if abs(D(v) - e) > D(tol) * e:
                res.violate("value-differs-from-exact-pmf", k=k, got=v, exact=float(e), tol=tol, ctx=ctx)
                return
        Zf = float(Z)
        vals = []
        for k in range(1, KMAX_POWER + 1):
            v = val(k)
            vals.append(v)
            e = k ** (-al) / Zf
            res.count("pointwise_float_checks")
            if abs(v - e) > (tol + 1e-9) * e:
                res.violate("value-differs-from-exact-pmf", k=k, got=v, exact=e, tol=tol, ctx=ctx)
                return
        s = math.fsum(vals)
        tail = float(powersum_tail_from(al, KMAX_POWER + 1) / Z)
        res.count("normalisation_checks")
        if abs(s + tail - 1.0) > tol + 1e-9:
            res.violate("does-not-sum-to-one", partial=s, exact_tail=tail, tol=tol, ctx=ctx)
        res.counters["max_tol_seen_e9"] = max(res.counters.get("max_tol_seen_e9", 0), int(tol * 1e9))
        return
    if dist == "scale_free_cut_off":
        al, ka = params
        terms = list(polylog_terms(al, ka))
        L = sum(t for _, t in terms)
        # every series keeps its first term; what a "drop terms below 1e-6" rule can lose is the rest of the small terms
        tau = sum(t for k_, t in terms if t < D(TOL_SERIES) and k_ > 1)
        tol = float(D("1.5") * tau / L) + 1e-12
        K = min(len(terms), 12000)
        vals = []
        for k, t in terms[:K]:
            v = val(k)
            vals.append(v)
            e = t / L
            res.count("pointwise_decimal_checks")
            if abs(D(v) - e) > D(tol + 1e-11) * e + D("1e-300"):
                res.violate("value-differs-from-exact-pmf", k=k, got=v, exact=float(e), tol=tol, ctx=ctx)
                return
        s = math.fsum(vals)
        tail = float(sum(t for _, t in terms[K:]) / L)
        res.count("normalisation_checks")
        if abs(s + tail - 1.0) > tol + 1e-9:
            res.violate("does-not-sum-to-one", partial=s, exact_tail=tail, tol=tol, ctx=ctx)
        return
    raise ValueError(dist)


def run_history(res, seed):
    """factories called in sequence, the returned callables evaluated interleaved: a value must not depend on which other
    distributions were created or evaluated before (the closures share nothing)"""
    import gcmpy
    rng = random.Random(seed)
    objs = []
    for _ in range(rng.randint(4, 8)):
        dist = rng.choice(["exponential", "poisson", "power_law", "scale_free_cut_off"])
        if dist == "exponential":
            par = [rng.choice([0.5, 0.5000001, 1, 1.0, rng.uniform(0.01, 5)])]
        elif dist == "poisson":
            par = [rng.choice([2, 2.0, 2.0000001, 7.3, rng.uniform(0.05, 30)])]
        elif dist == "power_law":
            par = [rng.choice([2, 2.0, 2.0000001, 2.5, 3, rng.uniform(2, 6)])]
        else:
            par = [rng.choice([2, 2.0, 2.5, rng.uniform(2, 6)]), rng.choice([5, 5.0, 5.0000001, 50.0, 0.05, rng.uniform(0.5, 500)])]
        objs.append((dist, par, make(res, dist, par, rng.choice(["positional", "positional", "keyword", "mixed"]))))
    # two callables of one law that differ only in what a caller may pass by keyword
    a, k1, k2 = rng.choice([2.5, 3.0, rng.uniform(2, 5)]), rng.choice([4.0, 8.0]), rng.choice([40.0, 25.0])
    st = rng.choice(["keyword", "mixed"])
    objs.append(("scale_free_cut_off", [a, k1], make(res, "scale_free_cut_off", [a, k1], st)))
    objs.append(("scale_free_cut_off", [a, k2], make(res, "scale_free_cut_off", [a, k2], st)))
    d2 = rng.choice(["exponential", "poisson", "power_law"])
    for x in ([0.7, 1.9] if d2 == "exponential" else [3.0, 11.5] if d2 == "poisson" else [2.2, 3.7]):
        objs.append((d2, [x], make(res, d2, [x], "keyword")))
    res.count("history_callables", len(objs))
    exact = {}
    for it in range(90):
        if it % 15 == 7:
            # other features of the library used in between (loaders that sample, other factories): whatever process-wide state they
            # touch (numpy's floating-point error mode, ...) is part of the history
            interfere(rng, None, res, only=("sampled JointDegreeMarginal", "distribution factories", "split-degree loaders", "bond_percolate"), k=2)
        dist, par, p = rng.choice(objs)
        k = rng.randint(0 if dist in ("exponential", "poisson") else 1, 40)
        if dist == "exponential" and rng.random() < 0.25:
            k = rng.choice([400, 1500, 3000, rng.randint(100, 4000)])      # far tail (the value underflows), then back to small k later
            res.count("far_tail_evaluations")
        v = float(sut(f"{dist}{tuple(par)}({k})", p, k))
        key = (dist, tuple(float(x) for x in par))
        if key not in exact:
            if dist == "exponential":
                a = D(float(par[0])); exact[key] = (lambda kk, a=a: (1 - (-a).exp()) * (-a * kk).exp(), 1e-12)
            elif dist == "poisson":
                m = D(float(par[0])); exact[key] = (lambda kk, m=m: (-m).exp() * m ** kk / D(math.factorial(kk)), 1e-12)
            elif dist == "power_law":
                al = float(par[0]); Z = zeta_exact(al)
                k0 = int(math.floor(10 ** (6.0 / al))) + 1
                while k0 > 1 and (k0 - 1) ** (-al) < TOL_SERIES:
                    k0 -= 1
                while k0 ** (-al) >= TOL_SERIES:
                    k0 += 1
                tau = powersum_tail_from(al, k0) if k0 >= 10 else Z - sum((D(j).ln() * -D(al)).exp() for j in range(1, k0))
                exact[key] = (lambda kk, al=al, Z=Z: (D(kk).ln() * -D(al)).exp() / Z, float(D("1.5") * tau / Z) + 1e-12)
            else:
                al, ka = float(par[0]), float(par[1])
                terms = list(polylog_terms(al, ka))
                L = sum(t for _, t in terms)
                tau = sum(t for k_, t in terms if t < D(TOL_SERIES) and k_ > 1)
                tab = dict(terms)
                exact[key] = (lambda kk, tab=tab, L=L, al=al, ka=ka: (tab[kk] if kk in tab else (-(D(kk) / D(ka)) - D(al) * D(kk).ln()).exp()) / L,
                              float(D("1.5") * tau / L) + 2e-11)
        f, tol = exact[key]
        e = f(k)
        res.count("history_evaluations")
        if not (v >= 0) or abs(D(v) - e) > D(tol) * e + D("1e-300"):
            res.violate("value-depends-on-what-was-created-or-evaluated-before(or differs from the exact pmf)", dist=dist, params=par, k=k, got=v, exact=float(e), tol=tol,
                        created=[(d, q) for d, q, _ in objs])
            return


def typed_degrees(res, dist, params):
    """a degree is a degree whatever integer type carries it: p(np.int64(k)), p(np.uint8(k)) ... (what a caller gets from looping over
    np.arange or a degree array) must be the value p(k) has for the Python int, for float- and int-typed parameters alike"""
    import numpy as np
    p = make(res, dist, params, "positional")
    lo = 0 if dist in ("exponential", "poisson") else 1
    ks = [k for k in (lo, 1, 2, 3, 7, 20, 21, 40, 63, 64, 100) if k >= lo]
    for T in (np.int64, np.int32, np.uint8, np.uint16, np.uint64, np.intp):
        for k in ks:
            want = float(sut(f"{dist}{tuple(params)}({k})", p, k))
            try:
                got = float(p(T(k)))
            except Exception as e:      # noqa: BLE001
                res.violate("degree-of-a-numpy-integer-type-is-not-evaluated", dist=dist, params=params, k=k, degree_type=T.__name__, error=repr(e)[:200], python_int_value=want)
                return
            res.count("typed_degree_checks")
            if not (abs(got - want) <= 1e-9 * abs(want) + 1e-300):
                res.violate("value-depends-on-the-integer-type-of-the-degree", dist=dist, params=params, k=k, degree_type=T.__name__, got=got, python_int_value=want)
                return


def vector_degrees(res, dist, params):
    """degrees handed over as ONE numpy array (p(np.arange(kmax)) is how a pmf is tabulated): where the function accepts an array at all
    (a refusal is only counted), the entry of every degree IN THE SUPPORT must be the value p(k) has for that degree alone - whatever else
    is in the array, including a degree outside the support at the front, in the middle or at the end (its own entry is not looked at)"""
    import warnings
    import numpy as np
    p = make(res, dist, params, "positional")
    lo = 0 if dist in ("exponential", "poisson") else 1
    hi = 40
    arrays = [("support ascending", np.arange(lo, hi)), ("support descending", np.arange(lo, hi)[::-1].copy()),
              ("degree below the support first", np.arange(lo - 1, hi)), ("degree below the support last", np.append(np.arange(lo, hi), lo - 1)),
              ("degree below the support in the middle", np.array([lo + 3, lo + 1, lo - 1, lo, lo + 7])),
              ("uint8 degrees", np.arange(lo, hi, dtype=np.uint8)), ("float-typed integral degrees", np.arange(lo - 1, hi).astype(float)),
              ("a single degree", np.array([lo + 2])), ("two-dimensional", np.arange(lo, lo + 12).reshape(3, 4))]
    for label, arr in arrays:
        if lo == 0 and arr.min() < 0 and dist == "poisson":
            continue
        try:
            with warnings.catch_warnings():
                warnings.simplefilter("ignore")
                with np.errstate(all="ignore"):
                    out = p(arr.copy())
            out = np.asarray(out)
        except Exception:      # noqa: BLE001 - arrays are not a documented input form; refusing them is fine
            res.count("vector_calls_refused")
            continue
        if out.shape != arr.shape:
            res.count("vector_calls_answered_with_another_shape")
            continue
        res.count("vector_calls")
        for k, got in zip(arr.ravel().tolist(), out.ravel().tolist()):
            if k < lo:
                continue
            want = float(sut(f"{dist}{tuple(params)}({int(k)})", p, int(k)))
            res.count("vector_entries_checked")
            try:
                ok = abs(float(got) - want) <= 1e-9 * abs(want) + 1e-300
            except Exception:      # noqa: BLE001
                ok = False
            if not ok:
                res.violate("entry-of-an-in-support-degree-in-a-vector-call-differs-from-the-value-for-that-degree", dist=dist, params=params, array=label,
                            degrees=arr.ravel().tolist()[:12], k=k, got=repr(got), value_for_that_degree_alone=want)
                return


def run_case(case):
    res = Result()
    if case["dist"] == "history":
        run_history(res, case["params"][0])
        res.nontrivial = True
        res.digest = digest(["history", case["params"]])
        res.sample = {"dist": "history", "seed": case["params"][0]}
        return res
    check_point(res, case["dist"], case["params"])
    if res.verdict == "held":
        typed_degrees(res, case["dist"], case["params"])
    if res.verdict == "held":
        vector_degrees(res, case["dist"], case["params"])
    res.nontrivial = True
    res.digest = digest([case["dist"], case["params"]])
    res.sample = {"dist": case["dist"], "params": case["params"]}
    return res
