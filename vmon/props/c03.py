"""C03 - stub matching is uniformly random (configuration-model measure).

Exact part: the generator's `random.shuffle` is replaced by a scripted tap and the generator is run
once for EVERY element of S_n1 x ... x S_nC (all shuffles of all stub lists); the histogram of
canonical outcomes must equal, as exact integer counts, the histogram the oracle obtains by
enumerating all stub->slot bijections itself, multiplied across independent columns.
Statistical part: seeded generations, chi-square against the oracle's exact probabilities.
"""
import copy
import math
import random
from collections import Counter
from itertools import combinations, permutations, product

from ..common import Result, sut, digest, SutRaised
from ..taps import RandomTap, installed
from ..stats import two_stage
from .. import gen
from ..interfere import interfere

ID = "C03"
RULE = ("small joint degree sequences whose placement space can be enumerated: k degree-1 vertices (k=4,6), mixed degrees with repeats, "
        "zero-degree vertices, two topologies (edge+triangle, edge+4-cycle, triangle+triangle, path, star), custom multi-orbit motifs "
        "with orbits (1,2) / (2,2) / bare edges; stub totals that are not a multiple of the motif size (fast generator, clique/path/star; accepted silently, last group short); exact mode enumerates all prod(n_c!) <= 50000 shuffles (fast and custom generators), "
        "statistical mode draws 4000 (quick) / 20000 (thorough) seeded generations (fast, custom, and network at edge-set level); "
        "non-trivial = >= 3 distinct outcomes under the oracle; distinct = SHA-1 of (configuration, jds, mode)")
RULE += ("; rounds k-l added: " + 'scale cases: one column with 2 100..12 000 stubs, 21 block-pair counts against uniform matching (chi-square on 20 df, violation above 150)')
RULE += '; round n: two-topology cases with identical degree columns (60% of those with equal stub totals)'
ASSUMPTIONS = ["exact part assumes randomness enters through one random.shuffle per stub list (verified per run from the tap's log); "
               "if that pattern is not observed the exact part is skipped for that case and the statistical part decides",
               "chi-square two-stage protocol (p>=1e-4 held; escalate 4x; p<1e-6 violated) + support check"]
HEADLINE = ["exact_cases", "exact_generations", "exact_outcomes", "exact_hook_pattern_missing", "stat_cases", "stat_generations", "chi2_tests",
            "chi2_escalations", "two_column_cases", "network_stat_cases", "custom_cases", "nondivisible_cases", "nondivisible_rejected_by_generator", "entropy_cases", "entropy_generations", "reseed_calls_observed", "stat_cases_with_a_callback_that_reseeds_the_random_source"]
REQUIRED = {"quick": {"exact_generations": 5000, "stat_generations": 20000, "two_column_cases": 5, "exact_or_stat_cases": 30, "entropy_cases": 6, "block_pair_tables_tested": 3},
            "thorough": {"exact_generations": 100000, "stat_generations": 200000, "two_column_cases": 20, "exact_or_stat_cases": 300, "entropy_cases": 60, "block_pair_tables_tested": 15}}
MAX_INCONCLUSIVE_FRACTION = 0.0
SHARD_TIMEOUT = {"quick": 600, "thorough": 7200}

SMALL_FAST = [("clique", 2), ("clique", 2), ("clique", 3), ("cycle", 4), ("path", 3), ("star", 3), ("cycle", 3), ("path", 2)]
SMALL_CUSTOM = [((2,), "bare", "bare"), ((1, 2), "star", "per-edge"), ((1, 2), "clique", "homog"), ((2, 2), "cycle", "per-edge"),
                ((3,), "path", "per-edge"), ((1, 1), "bare", "bare"), ((2, 1), "path", "per-edge")]


def gen_cases(tier, seed):
    cases = []
    ne, ns = (120, 24) if tier == "quick" else (2500, 200)
    for i in range(ne):
        cases.append({"mode": "exact", "seed": seed * 100129 + i, "limit": 5040 if tier == "quick" or i % 6 else 50000,
                      "_cost": 1 if tier == "quick" or i % 6 else 8})
    for i in range(ns):
        cases.append({"mode": "stat", "seed": seed * 100151 + i, "R": 4000 if tier == "quick" else 20000, "_cost": 5})
    for i in range(9 if tier == "quick" else 90):
        cases.append({"mode": "entropy", "seed": seed * 100153 + i, "_cost": 1})
    # two-topology fast / network generators whose first build callback re-seeds the random source (hostile callback)
    for i in range(8 if tier == "quick" else 60):
        cases.append({"mode": "stat", "seed": seed * 100169 + 2 * i, "R": 4000 if tier == "quick" else 20000, "_cost": 5, "hostile_fast": True})
    # scale: one topology with thousands of stubs - vertices far apart in the sequence must meet as often as chance says
    for i in range(4 if tier == "quick" else 24):
        cases.append({"mode": "blocks", "seed": seed * 100183 + i, "_cost": 4})
    return cases


def run_blocks(case, res, rng):
    """one column with 2 100 .. 12 000 stubs (more than any in-memory threshold a shuffle might be cut at: 2 080 = where 2080! passes the
    Mersenne Twister's period, 4 096, 8 192, 10 000), motifs of size 2 or 3.  Every pair of stubs that ends up in one motif is, marginally, a
    uniformly random pair of distinct stubs: with the vertices cut into 6 consecutive blocks of (nearly) equal stub count, the 21 block-pair
    counts must follow n_a n_b / C(n,2).  Pearson statistic on 20 degrees of freedom; a violation needs chi2 > 150 (p < 1e-21) - a
    placement that is 'favoured by vertex order' at this scale produces thousands."""
    import gcmpy
    from gcmpy import GCMAlgorithmNames as G
    size = rng.choice([2, 2, 3])
    n_stubs = rng.choice([rng.randint(2100, 4000), rng.randint(4100, 8000), rng.randint(8200, 12000)])
    n_stubs -= n_stubs % size
    degs = []
    left = n_stubs
    while left > 0:
        d = min(left, rng.choice([1, 1, 1, 2, 3]))
        degs.append(d); left -= d
    if rng.random() < 0.5:
        degs.sort(reverse=rng.random() < 0.5)        # a sequence sorted by degree is the usual way one is written down
    jds = [(d,) for d in degs]
    groups = []

    def build(vs):
        groups.append(tuple(vs))
        return gcmpy.clique_motif(vs)
    flavour = rng.choice(["fast", "network"])
    cls = gcmpy.GCMAlgorithmFast if flavour == "fast" else gcmpy.GCMAlgorithmNetwork
    alg = sut(cls.__name__, cls, {G.MOTIF_SIZES: [size], G.BUILD_FUNCTIONS: [build], G.EDGE_NAMES: ["t"]})
    tap = RandomTap(seed=case["seed"], keep_log=False)
    with installed(tap, "fast", "custom", "network", "algbase"):
        sut("random_clustered_graph", alg.random_clustered_graph, list(jds))
    res.count("large_single_column_generations")
    res.seen("large_column_stub_counts_in_thousands", n_stubs // 1000)
    if sum(len(g) for g in groups) != n_stubs:
        res.inconclusive("build callback saw %d stubs of %d" % (sum(len(g) for g in groups), n_stubs)); return
    B = 6
    cum, block = 0, {}
    for v, d in enumerate(degs):
        block[v] = min(B - 1, cum * B // n_stubs)
        cum += d
    nb = Counter()
    for v, d in enumerate(degs):
        nb[block[v]] += d
    obs = Counter()
    for g in groups:
        for a, b in combinations(g, 2):
            x, y = sorted((block[a], block[b]))
            obs[(x, y)] += 1
    npairs = sum(obs.values())
    tot = n_stubs * (n_stubs - 1) / 2.0
    chi2 = 0.0
    cells = {}
    for x in range(B):
        for y in range(x, B):
            e = npairs * ((nb[x] * nb[y]) if x != y else nb[x] * (nb[x] - 1) / 2.0) / tot
            cells["%d-%d" % (x, y)] = [obs[(x, y)], round(e, 1)]
            if e > 0:
                chi2 += (obs[(x, y)] - e) ** 2 / e
    res.count("block_pair_tables_tested")
    res.nontrivial = True
    res.digest = digest(["blocks", case["seed"]])
    res.sample = {"mode": "blocks", "stubs": n_stubs, "size": size, "chi2": round(chi2, 1)}
    if chi2 > 150:
        res.violate("vertices-far-apart-in-the-sequence-do-not-meet-as-often-as-uniform-matching-says", stubs=n_stubs, motif_size=size, flavour=flavour,
                    chi2_on_20_df=round(chi2, 1), block_pair_observed_expected=cells)


def make_small(rng, limit, force_fast_two=False):
    """a configuration + jds with prod(n_c!) <= limit"""
    for _ in range(1000):
        if force_fast_two:
            motifs = [rng.choice(SMALL_FAST) for _ in range(2)]
            cfg = {"flavour": "fast", "motifs": [list(m) for m in motifs], "names": ["t0", "t1"], "path": "direct", "use_library": True}
        elif rng.random() < 0.35:
            M = rng.choice([1, 1, 2])
            motifs = [rng.choice(SMALL_CUSTOM) for _ in range(M)]
            sizes, indices = [], []
            for orbits, _, _ in motifs:
                idx = []
                for s in orbits:
                    idx.append(len(sizes)); sizes.append(s)
                indices.append(idx)
            cfg = {"flavour": "custom", "motifs": [[list(o), s, n] for o, s, n in motifs], "sizes": sizes, "indices": indices,
                   "path": "direct", "tuple_result": rng.random() < 0.5}
        else:
            T = rng.choice([1, 1, 2])
            motifs = [rng.choice(SMALL_FAST) for _ in range(T)]
            cfg = {"flavour": "fast", "motifs": [list(m) for m in motifs], "names": ["t%d" % i for i in range(T)],
                   "path": "direct", "use_library": True}
        cols = gen.columns_of(cfg)
        nm = len(cfg["motifs"])
        inst = [rng.choice([1, 2, 2, 3, 3, 4]) for _ in range(nm)]
        n_c = [inst[j] * s for s, j in cols]
        nondiv = False
        if cfg["flavour"] == "fast" and rng.random() < 0.3 and all(m[0] in ("clique", "path", "star") for m in cfg["motifs"]) and any(s > 1 for s, _ in cols):
            # stub totals that are NOT a multiple of the motif size: the generator accepts such sequences silently (the last group is
            # short), so whatever it produces must still not depend on vertex order
            nondiv = True
            n_c = [n + (rng.randint(1, s - 1) if s > 1 else 0) for n, (s, j) in zip(n_c, cols)]
        cfg["nondivisible"] = nondiv
        space = 1
        for n in n_c:
            space *= math.factorial(n)
        if space > limit or space < 2:
            continue
        N = rng.randint(2, 7)
        fam = rng.choice(["deg1", "mixed", "mixed", "zeros"])
        jds = [[0] * len(cols) for _ in range(N)]
        ok = True
        for c, n in enumerate(n_c):
            if fam == "deg1":
                if n > N:
                    ok = False; break
                for v in rng.sample(range(N), n):
                    jds[v][c] += 1
            else:
                live = list(range(N)) if fam == "mixed" else list(range(max(1, N - 2)))
                for _ in range(n):
                    jds[rng.choice(live)][c] += 1
        if not ok:
            continue
        if len(cols) >= 2 and n_c[0] == n_c[1] and rng.random() < 0.6:
            # two topologies with IDENTICAL degree columns (every vertex has the same degree in both, e.g. [(1,1)]*4): their placements are
            # still independent of each other
            for row in jds:
                row[1] = row[0]
            cfg["equal_columns"] = True
        return cfg, [tuple(x) for x in jds], n_c
    raise RuntimeError("could not build a small configuration")


def canon_motif(results):
    """canonical outcome of one motif type: sorted tuple over its instances of (sorted vertices it was built on, sorted unordered pairs)"""
    return tuple(sorted((tuple(sorted(vs)), tuple(sorted(gen.upair(e) for e in es))) for vs, es in results))


def oracle_hist(cfg, jds):
    """per motif: Counter(outcome -> number of (tuples of) column permutations producing it) by own enumeration"""
    cols = gen.columns_of(cfg)
    hists = []
    for j, m in enumerate(cfg["motifs"]):
        mycols = [(c, s) for c, (s, jj) in enumerate(cols) if jj == j]
        stub_lists = [[v for v, jd in enumerate(jds) for _ in range(jd[c])] for c, _ in mycols]
        shape = m[1] if cfg["flavour"] == "custom" else m[0]
        h = Counter()
        ninst = -(-len(stub_lists[0]) // mycols[0][1])      # a short last group counts (non-divisible totals)
        # enumerate *distinct* arrangements with multiplicity: permutations of positions (all n! of them)
        perms_per_col = [list(permutations(sl)) for sl in stub_lists]
        for combo in product(*perms_per_col):
            insts = []
            for i in range(ninst):
                vs = []
                for (c, s), arr in zip(mycols, combo):
                    vs += list(arr[i * s:(i + 1) * s])
                insts.append((vs, gen.shape_edges(shape, vs) if shape != "bare" else [(vs[0], vs[1])]))
            h[canon_motif(insts)] += 1
        hists.append(h)
    return hists


def observed_outcome(cfg, rec):
    out = []
    for j in range(len(cfg["motifs"])):
        out.append(canon_motif([(c[1], c[2]) for c in rec.calls if c[0] == j]))
    return tuple(out)


def run_once(cfg, jds, tap, hostile=False):
    rec = gen.Recorder()
    if hostile:
        # a build callback that uses - and re-seeds - the very random source the generator draws from (a nested simulation inside
        # the callback does that): the placements of ALL topologies must still follow the law
        def _reseed(k):
            tap.rng.random()
            tap.rng.seed(424242 + k)
        rec.on_build = _reseed
    alg, cls = gen.build_algorithm(cfg, rec)
    with installed(tap, "fast", "custom"):
        out = sut(f"{cls.__name__}.random_clustered_graph", alg.random_clustered_graph, copy.deepcopy(jds))
    return rec, out


ALL_GENERATOR_MODULES = ("fast", "custom", "network", "algbase", "factory", "main")


def run_entropy(case, res, rng):
    """Placement spaces far beyond enumeration (2m distinct degree-1 vertices paired into m edges: (2m-1)!! matchings).  Nothing
    statistical can be said there from a few draws; what CAN be observed is where the randomness comes from.  Every gcmpy module on
    the generation path gets the tap as its `random`; if the code re-seeds that source, everything it draws afterwards is a
    function of the seed value, so at most 2**bits placements are reachable - a violation of "every placement has its probability"
    as soon as the space is larger."""
    m = rng.randint(13, 24)
    N = 2 * m
    fl = ["fast", "network", "custom"][case["seed"] % 3]
    path = rng.choice(["direct", "main-enum", "main-str", "factory"])
    if fl == "custom":
        cfg = {"flavour": "custom", "motifs": [[[2], "clique", "homog"]], "sizes": [2], "indices": [[0]], "path": path, "tuple_result": True, "use_library": True}
    else:
        cfg = {"flavour": fl, "motifs": [["clique", 2]], "names": ["pair"], "path": path, "use_library": True}
    jds = [(1,)] * N
    space_bits = sum(math.log2(k) for k in range(1, 2 * m, 2))          # log2((2m-1)!!)
    tap = RandomTap(seed=case["seed"], keep_log=False)
    rec = gen.Recorder()
    seen = set()
    with installed(tap, *ALL_GENERATOR_MODULES) as inst:
        alg, cls = gen.build_algorithm(cfg, rec)
        for _ in range(6):
            out = sut(f"{cls.__name__}.random_clustered_graph", alg.random_clustered_graph, list(jds))
            res.count("entropy_generations")
            pairs = [tuple(sorted(e)) for e in (out.G.edges() if fl == "network" else out.edge_list)]
            ends = Counter(v for e in pairs for v in e)
            loops = sum(1 for a, b in pairs if a == b)
            if fl != "network" and (len(pairs) != m or any(ends[v] != 1 for v in range(N))):
                res.violate("placement-is-not-a-perfect-matching-of-the-stubs", pairs=pairs[:10], cfg=cfg); return
            seen.add(tuple(sorted(pairs)))
    res.count("entropy_cases")
    res.count("tap_bindings", sum(inst.bound.values()))
    ctx = {"cfg": cfg, "vertices": N, "log2_placements": round(space_bits, 1), "mode": "entropy"}
    if tap.reseeds:
        res.count("reseed_calls_observed", len(tap.reseeds))
        known = [r["bits"] for r in tap.reseeds if r["bits"] is not None]
        if known and len(known) == len(tap.reseeds):
            bits = max(known)
            if min(space_bits, 128) > bits + 1:        # a seed of 128 bits and more is as good as the source itself
                res.violate("generator-reseeds-its-random-source-with-fewer-bits-than-the-placement-space-needs", seed_bits=bits,
                            reseeds=tap.reseeds[:4], note="after the re-seed every draw is a function of the seed value: at most 2**%d of the 2**%.1f equally likely placements can occur" % (bits, space_bits),
                            ctx=ctx)
                return
    if len(seen) < 6:
        res.violate("the-same-placement-drawn-twice-in-six-draws-from-a-space-of-2**%d" % int(space_bits), distinct=len(seen), ctx=ctx); return
    res.nontrivial = True
    res.sample = ctx
    res.digest = digest([cfg, N, case["seed"]])


def run_case(case):
    res = Result()
    rng = random.Random(case["seed"])
    if case["mode"] == "entropy":
        run_entropy(case, res, rng)
        return res
    if case["mode"] == "blocks":
        run_blocks(case, res, rng)
        return res
    if case["mode"] == "exact":
        cfg, jds, n_c = make_small(rng, case["limit"])
    else:
        cfg, jds, n_c = make_small(rng, 5040, force_fast_two=bool(case.get("hostile_fast")))
        if rng.random() < 0.3 and cfg["flavour"] == "fast":
            cfg["flavour"] = "network"
    if cfg.get("nondivisible"):
        res.count("nondivisible_cases")
        try:
            run_once(cfg, jds, RandomTap(seed=1))
        except SutRaised:
            # a generator that rejects non-handshake input is outside this clause: nothing is asserted
            res.count("nondivisible_rejected_by_generator")
            res.sample = {"cfg": cfg, "jds": jds, "note": "generator rejects this non-divisible input"}
            res.digest = digest([cfg, jds, "rejected"])
            return res
    hists = oracle_hist(cfg, jds)
    joint = Counter()
    for combo in product(*[h.items() for h in hists]):
        joint[tuple(o for o, _ in combo)] = math.prod(c for _, c in combo)
    total = sum(joint.values())
    ctx = {"cfg": cfg, "jds": jds, "mode": case["mode"]}
    if len(n_c) >= 2:
        res.count("two_column_cases")
    if cfg["flavour"] == "custom":
        res.count("custom_cases")
    cols = gen.columns_of(cfg)
    stubs = [sorted(v for v, jd in enumerate(jds) for _ in range(jd[c])) for c in range(len(cols))]
    if case["mode"] == "exact":
        # probe run: is the hook pattern "one shuffle per column, in column order, on that column's stubs"?
        probe = RandomTap(seed=1)
        run_once(cfg, jds, probe)
        sh = [e for e in probe.log if e[0] == "shuffle"]
        pattern = len(sh) == len(cols) and all(sorted(e[1]) == stubs[c] for c, e in enumerate(sh)) and not probe.other \
            and set(probe.counts) <= {"shuffle"}
        if not pattern:
            res.count("exact_hook_pattern_missing")
            case = dict(case, mode="stat", R=4000)
        else:
            obs = Counter()
            for combo in product(*[permutations(range(n)) for n in n_c]):
                tap = RandomTap(script={"shuffle": [list(p) for p in combo]}, strict=True, keep_log=False)
                rec, out = run_once(cfg, jds, tap)
                obs[observed_outcome(cfg, rec)] += 1
                res.count("exact_generations")
            res.count("exact_cases")
            res.count("exact_or_stat_cases")
            res.count("exact_outcomes", len(joint))
            if sum(obs.values()) != total:
                res.violate("enumeration-size-mismatch(harness)", got=sum(obs.values()), want=total, ctx=ctx)
            elif obs != joint:
                d = {repr(k): (obs.get(k, 0), joint.get(k, 0)) for k in set(obs) | set(joint) if obs.get(k, 0) != joint.get(k, 0)}
                res.violate("placement-histogram-differs-from-uniform-bijection-law", outcome_got_want=dict(list(d.items())[:4]),
                            n_outcomes=len(joint), runs=total, ctx=ctx)
    if case["mode"] == "stat":
        expected = {k: v / total for k, v in joint.items()}
        network = cfg["flavour"] == "network"
        if network:
            res.count("network_stat_cases")
            # project to collapsed edge sets
            e2 = Counter()
            for k, p in expected.items():
                e2[frozenset(p for motif in k for inst in motif for p in inst[1])] += p
            expected = dict(e2)

        hostile = len(n_c) >= 2 and case["seed"] % 2 == 0
        if hostile:
            res.count("stat_cases_with_a_callback_that_reseeds_the_random_source")
        interfered = not hostile and case["seed"] % 3 == 1
        if interfered:
            # history: between two generations the caller uses OTHER features of the library (a cover, a percolation run, ...) which
            # draw from the same random source; the placement law of the next generation must not care
            res.count("stat_cases_with_other_features_used_between_generations")
        irng = random.Random(case["seed"] + 99)

        def draw(n, stage):
            tap = RandomTap(seed=case["seed"] * 13 + stage, keep_log=False)
            c = Counter()
            for it in range(n):
                if hostile:
                    tap.rng.seed(case["seed"] * 1000003 + stage * 7919 + it)      # the callbacks leave the source in a fixed state: start each draw afresh
                if interfered:
                    interfere(irng, tap, res, only=("MPCC", "EECC", "bond_percolate", "DrawSet"), k=1)
                rec, out = run_once(cfg, jds, tap, hostile=hostile)
                if network:
                    c[frozenset(gen.upair(e) for e in out.G.edges())] += 1
                else:
                    c[observed_outcome(cfg, rec)] += 1
                res.count("stat_generations")
            return dict(c)
        ok, info = two_stage(draw, expected, case["R"], res)
        res.count("stat_cases")
        res.count("exact_or_stat_cases")
        if not ok:
            res.violate("placement-frequencies-reject-the-uniform-bijection-law", info=info, n_outcomes=len(expected), ctx=ctx)
    res.nontrivial = len(joint) >= 3
    res.digest = digest([cfg, jds, case["mode"]])
    res.sample = {"cfg": cfg, "jds": jds, "mode": case["mode"], "stubs_per_column": n_c, "outcomes": len(joint), "space": total}
    return res
