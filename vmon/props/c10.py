"""C10 - MPCC labels partition the edges into maximal-first disjoint cliques.

Monitor: snapshot of the graph before; RandomTap on mpcc.shuffle (identity, reverse, seeds, and all
relative orders of the largest cliques when there are few); the `clique` attribute of every edge read
back.  Oracle: label algebra by parsing; greedy-maximality from nx.enumerate_all_cliques on the snapshot.
"""
import ast
import random
from itertools import combinations, permutations

import networkx as nx

from ..common import Result, sut, digest
from ..taps import RandomTap, installed
from ..graphfam import random_graph

ID = "C10"
RULE = ("simple loop-free graphs: every atlas graph with <= 6 vertices (sampled), G(n,p) n <= 14 with p in {.2,.35,.5,.7,.9}, planted structures "
        "(chains of K_k sharing an edge, K_k u K_k sharing K_{k-1}, wheels, K_n n<=8, books, rings of K4), isolated vertices sometimes kept; "
        "max_size in {0,2,3,4,5}; schedules: shuffle -> identity, reverse, 3 seeds, and every relative order of the largest cliques when there are "
        "<= 5 of them; in half of the cases the same graph object is then rewired in place (degree-preserving double edge swaps) and covered again; non-trivial = >= 2 overlapping cliques of size >= 3; distinct = SHA-1 of (graph, max_size)")
RULE += ("; rounds k-l added: " + '20% of the graphs (<= 40 vertices) on signed or one-hash integer labels')
RULE += '; round m: one graph with more than 2**20 vertices (nearly all isolated; edges among 28 vertices at low and high positions) per quick run'
ASSUMPTIONS = ["vertex ids are non-negative ints (label parsing splits on '-')", "ids need not be dense; member order inside a label is free"]
HEADLINE = ["runs", "graphs", "edges_labelled", "cliques_checked_for_maximality", "top_order_enumerations", "limit_cases", "shuffle_hook_seen", "isolated_vertex_graphs", "recover_after_in_place_rewiring", "large_disconnected_graphs"]
REQUIRED = {t: {"runs": 500, "cliques_checked_for_maximality": 2000, "top_order_enumerations": 20, "limit_cases": 50, "shuffle_hook_seen": 100, "recover_after_in_place_rewiring": 30, "large_disconnected_graphs": 3}
            for t in ("quick", "thorough")}


def gen_cases(tier, seed):
    n = 400 if tier == "quick" else 24000
    cases = [{"seed": seed * 100237 + i} for i in range(n)]
    # scale: disconnected graphs with thousands of vertices (thorough: beyond 2**16), many components that each hold edges
    for i in range(4 if tier == "quick" else 40):
        cases.append({"seed": seed * 100237 + 900000 + i, "large": (2100, 6000) if tier == "quick" or i % 4 else (66000, 72000), "_cost": 30})
    # scale in the number of VERTICES: more than 2**20 of them (nearly all isolated), edges between vertices at low and at high positions
    for i in range(1 if tier == "quick" else 3):
        cases.append({"seed": seed * 100237 + 950000 + i, "huge": True, "_cost": 400})
    return cases


def huge_graph(rng):
    n = (1 << 20) + rng.randint(40, 400)
    g = nx.Graph()
    g.add_nodes_from(range(n))
    low = rng.sample(range(0, 48), 14)
    high = [(1 << 20) + j for j in rng.sample(range(0, 40), 14)]
    act = low + high
    for i, a in enumerate(act):
        for b in act[i + 1:]:
            if rng.random() < 0.3:
                g.add_edge(a, b)
    # pairs whose positions differ by exactly 2**20 in one end and 1 in the other
    for _ in range(6):
        a, j = rng.randrange(0, 40), rng.randrange(0, 40)
        g.add_edge(a, (1 << 20) + j)
        if a + 1 != j:
            g.add_edge(a + 1, j)
    return "%d vertices (more than 2**20), %d edges among 28 + a few of them" % (n, g.number_of_edges()), g


def large_graph(rng, lo, hi):
    target = rng.randint(lo, hi)
    g = nx.Graph()
    nxt = 0
    while nxt < target:
        k = rng.choice(["path", "tri", "k4", "gnp", "star", "single", "diamond"])
        if k == "path":
            h = nx.path_graph(rng.randint(2, 6))
        elif k == "tri":
            h = nx.complete_graph(3)
        elif k == "k4":
            h = nx.complete_graph(rng.choice([4, 5]))
        elif k == "gnp":
            h = nx.gnp_random_graph(rng.randint(4, 9), 0.5, seed=rng.randrange(1 << 30))
        elif k == "star":
            h = nx.star_graph(rng.randint(2, 5))
        elif k == "diamond":
            h = nx.Graph([(0, 1), (0, 2), (1, 2), (1, 3), (2, 3)])
        else:
            h = nx.empty_graph(1)
        g.add_nodes_from(nxt + v for v in h.nodes())
        g.add_edges_from((nxt + a, nxt + b) for a, b in h.edges())
        nxt += h.number_of_nodes()
    return "union of %d small components, %d vertices" % (nx.number_connected_components(g), g.number_of_nodes()), g


def parse(label):
    if not isinstance(label, str):
        return None
    a = label.find("-")
    b = label.rfind("-")
    if a < 0 or b <= a:
        return None
    try:
        size = int(label[:a])
        members = ast.literal_eval(label[a + 1:b])
        cid = label[b + 1:]
        members = list(members)
    except Exception:
        return None
    return size, members, cid


def check_cover(res, g0, g, max_size, cliques, ctx):
    if set(g.nodes()) != set(g0.nodes()) or {frozenset(e) for e in g.edges()} != {frozenset(e) for e in g0.edges()}:
        res.violate("vertex-or-edge-set-changed", ctx=ctx); return False
    by_label = {}
    for u, v, d in g.edges(data=True):
        lab = d.get("clique")
        p = parse(lab)
        if p is None:
            res.violate("edge-without-well-formed-label", edge=(u, v), label=repr(lab), ctx=ctx); return False
        by_label.setdefault(lab, []).append(frozenset((u, v)))
        res.count("edges_labelled")
    ids = {}
    size_of_edge = {}
    for lab, es in by_label.items():
        size, members, cid = parse(lab)
        if len(members) != size or len(set(members)) != size:
            res.violate("member-list-length-differs-from-stated-size", label=lab, ctx=ctx); return False
        if max_size > 0 and size > max_size:
            res.violate("clique-larger-than-the-size-limit", label=lab, max_size=max_size, ctx=ctx); return False
        want = {frozenset(p) for p in combinations(members, 2)}
        if set(es) != want or len(es) != len(want):
            res.violate("edges-sharing-a-label-are-not-all-pairs-of-its-members", label=lab, edges=[sorted(e) for e in es], ctx=ctx); return False
        if cid in ids:
            res.violate("two-cliques-share-an-id", labels=[ids[cid], lab], ctx=ctx); return False
        ids[cid] = lab
        for e in es:
            size_of_edge[e] = size
    for K in cliques:
        if len(K) < 2 or (max_size > 0 and len(K) > max_size):
            continue
        res.count("cliques_checked_for_maximality")
        if not any(size_of_edge[frozenset(p)] >= len(K) for p in combinations(K, 2)):
            res.violate("a-clique-has-no-edge-in-a-cover-clique-at-least-as-large", clique=K,
                        its_edges={str(sorted(p)): size_of_edge[frozenset(p)] for p in combinations(K, 2)}, ctx=ctx); return False
    return True


def run_case(case):
    import gcmpy
    res = Result()
    rng = random.Random(case["seed"])
    if case.get("large") or case.get("huge"):
        if case.get("huge"):
            d, g0 = huge_graph(rng)
            res.count("graphs_with_more_than_2**20_vertices")
        else:
            d, g0 = large_graph(rng, *case["large"])
            res.count("large_disconnected_graphs")
        res.seen("large_graph_orders_in_thousands", g0.number_of_nodes() // 1000)
        max_size = rng.choice([0, 0, 3])
        cliques = list(nx.enumerate_all_cliques(g0))
        base = {"graph": d, "edges": sorted(tuple(sorted(e)) for e in list(g0.edges())[:40]), "nodes": g0.number_of_nodes(), "max_size": max_size}
        for val in ((1, 2) if not case.get("huge") else (1,)):
            g = g0.copy()
            with installed(RandomTap(seed=val, keep_log=False), "mpcc"):
                out = sut("MPCC", gcmpy.MPCC, g, max_size)
            res.count("runs")
            if out is not g and not isinstance(out, nx.Graph):
                res.violate("did-not-return-a-graph", got=repr(out)[:100], ctx=base); break
            if not check_cover(res, g0, out, max_size, cliques, dict(base, schedule=["seed", val])):
                break
        res.nontrivial = True
        res.sample = base
        res.digest = digest([d, case["seed"]])
        return res
    d, g0 = random_graph(rng, nmax=14, allow_isolates=rng.random() < 0.15)
    if rng.random() < 0.15:
        # vertices without any edge are part of an input graph too (they take part in no clique of size >= 2)
        base_id = max([v for v in g0.nodes() if isinstance(v, int)], default=0) + 1
        extra = [base_id + i for i in range(rng.randint(1, 4))]
        if rng.random() < 0.5:
            g1 = nx.Graph(); g1.add_nodes_from(extra); g1.add_nodes_from(g0.nodes()); g1.add_edges_from(g0.edges()); g0 = g1     # isolates first
        else:
            g0.add_nodes_from(extra)
        d += "+%d isolated" % len(extra)
    if g0.number_of_nodes() <= 40 and rng.random() < 0.2:
        from ..graphs import odd_numeric_labels
        lk, g0 = odd_numeric_labels(rng, g0, res, floats=False)
        d += "+labels:" + lk
    if rng.random() < 0.2:
        # the graph as the library's own Network class holds it (edges put in through its helpers, no edge attributes yet)
        net = sut("Network()", gcmpy.Network)
        sut("Network.add_edges_from", net.add_edges_from, list(g0.edges()))
        Gn = sut("Network.G", lambda: net.G)
        Gn.add_nodes_from(g0.nodes())
        g0 = Gn
        res.count("graphs_held_by_a_library_Network_object")
    if any(deg == 0 for _, deg in g0.degree()):
        res.count("isolated_vertex_graphs")
    max_size = rng.choice([0, 0, 2, 3, 4, 5])
    if max_size:
        res.count("limit_cases")
    if rng.random() < 0.25:
        # the size limit as the caller may hold it: an element of a numpy array, a numpy scalar of any integer width
        import numpy as np
        max_size = rng.choice([np.int64, np.int32, np.uint8, np.intp])(max_size)
        res.count("limits_given_as_numpy_integers")
    cliques = list(nx.enumerate_all_cliques(g0))
    res.count("graphs")
    base = {"graph": d, "edges": sorted(tuple(sorted(e)) for e in g0.edges()), "nodes": g0.number_of_nodes(), "max_size": max_size}
    scheds = [("preset", "identity"), ("preset", "reverse"), ("seed", 1), ("seed", 2), ("seed", 3)]
    # probe: what does shuffle see?
    probe = RandomTap(preset={"shuffle": "identity"})
    with installed(probe, "mpcc"):
        sut("MPCC(probe)", gcmpy.MPCC, g0.copy(), max_size)
    sh = [e for e in probe.log if e[0] == "shuffle"]
    if len(sh) == 1:
        res.count("shuffle_hook_seen")
        lst = sh[0][1]
        eligible = [i for i, c in enumerate(lst) if not (max_size > 0 and len(c) > max_size)]
        if eligible:
            top = max(len(lst[i]) for i in eligible)
            tops = [i for i in eligible if len(lst[i]) == top]
            if 2 <= len(tops) <= 5 and top >= 3:
                res.count("top_order_enumerations")
                for pi in permutations(tops):
                    perm = list(range(len(lst)))
                    for pos, src in zip(tops, pi):
                        perm[pos] = src
                    scheds.append(("script", perm))
    for kind, val in scheds:
        g = g0.copy()
        tap = RandomTap(seed=val if kind == "seed" else 0, preset={"shuffle": val} if kind == "preset" else None,
                        script={"shuffle": [val]} if kind == "script" else None, keep_log=False)
        with installed(tap, "mpcc"):
            out = sut("MPCC", gcmpy.MPCC, g, max_size)
        res.count("runs")
        if out is not g and not isinstance(out, nx.Graph):
            res.violate("did-not-return-a-graph", got=repr(out)[:100], ctx=base); break
        if not check_cover(res, g0, out, max_size, cliques, dict(base, schedule=[kind, val if kind != "script" else "top-order"])):
            break
        if kind == "seed" and val == 1 and rng.random() < 0.5 and g.number_of_edges() >= 2:
            # history: the SAME graph object is rewired in place (degree-preserving double edge swaps, what the MCMC tool does to a
            # network) and covered again; the second cover must be a cover of the graph as it is now
            swapped = 0
            for _ in range(30):
                es = list(g.edges())
                (a, b), (c, d) = rng.sample(es, 2)
                if len({a, b, c, d}) < 4 or g.has_edge(a, d) or g.has_edge(c, b):
                    continue
                g.remove_edge(a, b); g.remove_edge(c, d)
                g.add_edge(a, d); g.add_edge(c, b)
                swapped += 1
                if swapped >= 3:
                    break
            if swapped:
                res.count("recover_after_in_place_rewiring")
                g1 = nx.Graph(); g1.add_nodes_from(g.nodes()); g1.add_edges_from(g.edges())
                cl1 = list(nx.enumerate_all_cliques(g1))
                with installed(RandomTap(seed=7, keep_log=False), "mpcc"):
                    out2 = sut("MPCC (same graph object after in-place rewiring)", gcmpy.MPCC, g, max_size)
                res.count("runs")
                if not check_cover(res, g1, out2, max_size, cl1, dict(base, schedule=["seed", 7], history=["MPCC(G)", "%d double edge swaps in place" % swapped, "MPCC(G)"],
                                                                       edges_now=sorted(tuple(sorted(e)) for e in g1.edges()))):
                    break
    big = [c for c in cliques if len(c) >= 3]
    res.nontrivial = any(len(set(a) & set(b)) >= 2 for i, a in enumerate(big) for b in big[i + 1:] if not set(a) <= set(b) and not set(b) <= set(a))
    res.sample = base
    res.digest = digest(base)
    return res
