"""C01 - generated graphs realise exactly the requested joint degree sequence.

Monitor: recording build callbacks (the generator's only side channel), RandomTap on both generator
modules (seeded and adversarial-but-possible shuffles), the returned edge list / network, and a
deep copy of the input.  Oracle: stub-multiset conservation per topology / orbit, by pure counting
over the call log.
"""
import copy
import random

from ..common import Result, sut, digest
from ..taps import RandomTap, installed, InjectedFault
from .. import gen

ID = "C01"
RULE = ("random handshake-consistent joint degree sequences (N 1..40 quick / 1..400 thorough, 1..4 topologies, zero-degree vertices "
        "forced in ~40%, all-zero columns ~10%, stubs uniform / concentrated / all on one vertex) x motif configurations (cliques 2..5, "
        "cycles 3..6, diamond, star, path, chorded cycle, library or harness builders; custom multi-orbit motifs with orbit structures "
        "(1),(2),(3),(4),(1,2),(2,1),(1,3),(2,2),(2,2,1),(1,1),(1,1,1), orbit columns listed in builder-slot order which in 30% of the multi-orbit motifs is not ascending; topology names strings, integer labels incl. 0 (12%) or with an empty string (5%)) x {fast, network, custom} x {direct, GCMAlgorithmMain enum/str, "
        "factory} x 7 RNG schedules (3 seeds + identity/reverse/rotate/sort-descending shuffles); a case = one (jds, configuration) under "
        "all schedules; in 60% of the cases ONE generator object serves all seven calls and receives the caller's own list object, which is edited in place "
        "between calls (rows permuted / swapped, zero-degree vertices appended or dropped), and in half of those a second generator of the same class with another "
        "configuration is built and used in between; non-trivial = >=2 motif instances and (a zero-degree vertex or a vertex with degree >=2 in a topology); "
        "distinct = SHA-1 of (configuration, jds)")
RULE += ("; rounds k-l added: " + 'two topologies sharing one edge name (8% of fast/network configurations), names that are members of a str-based Enum (8%), custom bare-edge callbacks that hand back their own argument list (40% of custom configurations), the sequence as a numpy table of a narrow integer type (int8/uint8/int16; 15% of the cases are built larger so that column sums pass the element type)')
RULE += '; round n: fast / network callbacks that return [their argument list] as the one edge of a 2-vertex motif (20% of the configurations)'
ASSUMPTIONS = ["only handshake-consistent inputs are generated (column sums divisible; equal instance counts across a motif's orbits)",
               "the oracle is order- and orientation-insensitive and never looks at which stubs met, only at conservation"]
HEADLINE = ["generations", "motif_instances", "columns_conserved", "edgelist_outputs", "network_outputs", "fast", "network", "custom",
            "path_direct", "path_factory", "path_main-enum", "path_main-str", "shuffle_calls", "zero_degree_cases", "multi_orbit_cases", "reused_generator_cases", "in_place_edits_between_calls", "second_live_generator_cases", "generations_aborted_by_a_raising_callback", "decoy_model_configured_first_cases", "library_motif_calls_checked"]
REQUIRED = {t: {"fast": 20, "network": 20, "custom": 20, "path_direct": 10, "path_factory": 10, "path_main-enum": 10,
                "path_main-str": 10, "zero_degree_cases": 20, "multi_orbit_cases": 10, "shuffle_calls": 100, "reused_generator_cases": 50, "in_place_edits_between_calls": 50, "second_live_generator_cases": 20}
            for t in ("quick", "thorough")}
SCHEDULES = [("seed", 1), ("seed", 2), ("seed", 3), ("preset", "identity"), ("preset", "reverse"), ("preset", "rotate"), ("preset", "sortdesc")]


def gen_cases(tier, seed):
    n = 400 if tier == "quick" else 40000
    cases = [{"seed": seed * 100069 + i, "nmax": 40 if tier == "quick" or i % 10 else 400} for i in range(n)]
    if tier == "thorough":
        cases.append({"kind": "repo-tests", "seed": seed, "_cost": 500})
    return cases


def run_generation(res, cfg, jds, sched, oracles, alg_rec=None, jds_live=None, np_dtype=None):
    """one generation.  alg_rec = (algorithm object, its Recorder, class) to REUSE a generator object across calls;
    jds_live = the caller's own list object, handed over as it is (so that in-place edits between calls are what the
    generator sees); the oracle works from a private deep copy taken just before the call."""
    if alg_rec is None:
        rec = gen.Recorder()
        alg, cls = gen.build_algorithm(cfg, rec)
    else:
        alg, rec, cls = alg_rec
        del rec.calls[:]
        del rec.alarms[:]
        rec.library_calls = 0
    kind, val = sched
    tap = RandomTap(seed=val if kind == "seed" else 0, preset={"shuffle": val} if kind == "preset" else None, keep_log=False)
    jds_in = copy.deepcopy(jds) if jds_live is None else jds_live
    before = copy.deepcopy(jds_in)
    if np_dtype is not None and jds_live is None:
        # the sequence as a numpy table of a narrow integer type (a degree table loaded from a file): degrees fit the type, column sums need not
        import numpy as np
        arr = np.array([list(r) for r in jds_in], dtype=np_dtype)
        with installed(tap, "fast", "custom"):
            out = sut(f"{cls.__name__}.random_clustered_graph(ndarray {np_dtype})", alg.random_clustered_graph, arr)
        jds_in = [tuple(r) for r in arr.tolist()]
        before = [tuple(r) for r in before]
        res.count("generations_from_a_numpy_table")
    else:
        with installed(tap, "fast", "custom"):
            out = sut(f"{cls.__name__}.random_clustered_graph", alg.random_clustered_graph, jds_in)
    res.count("generations")
    res.count("shuffle_calls", tap.counts["shuffle"])
    res.count(cfg["flavour"])
    res.count("path_" + cfg["path"])
    ctx = {"cfg": cfg, "jds": before, "schedule": list(sched)}
    for o in oracles:
        if o == "conservation":
            if not gen.oracle_conservation(res, cfg, jds_in, before, rec, out, tap, ctx):
                return None
        elif o == "columns":
            if not gen.oracle_columns(res, cfg, before, rec, out, ctx):
                return None
    return rec, out


def run_case(case, oracles=("conservation",), custom_share=0.35, force_special=False, ID=ID):
    if case.get("kind") == "repo-tests":
        from ..repotests import run as _run_repo_tests
        res = Result()
        _run_repo_tests(ID, res)
        res.nontrivial = True
        res.digest = "repo-tests"
        res.sample = {"kind": "repo-tests", "notes": res.notes[:2]}
        return res
    res = Result()
    rng = random.Random(case["seed"])
    if rng.random() < custom_share:
        cfg = gen.make_custom_config(rng, force=force_special)
    else:
        cfg = gen.make_fast_config(rng, allow_empty="columns" not in oracles, shared_names=True)
    want_table = rng.random() < 0.15
    jds, inst = gen.make_jds(rng, cfg, nmax=case.get("nmax", 40) if not want_table else 160, heavy=rng.random() < (0.2 if not want_table else 0.7))
    if any(sum(jd) == 0 for jd in jds):
        res.count("zero_degree_cases")
    if cfg["flavour"] == "custom" and any(len(m[0]) > 1 for m in cfg["motifs"]):
        res.count("multi_orbit_cases")
    if cfg["flavour"] == "custom" and any(m[2] in ("generator", "iter") for m in cfg["motifs"]):
        res.count("oneshot_name_iterables")
    shapes = set()
    if cfg["flavour"] != "custom" and len(set(map(repr, cfg["names"]))) < len(cfg["names"]):
        res.count("configurations_in_which_two_topologies_share_an_edge_name")
    if cfg.get("decoy"):
        res.count("decoy_model_configured_first_cases")
    reuse = rng.random() < 0.6
    np_dtype = None
    mx = max((x for jd in jds for x in jd), default=0)
    if want_table:
        reuse = False
    if not reuse and jds and len(jds[0]) and (want_table or rng.random() < 0.2):
        np_dtype = rng.choice([t for t, cap in (("int8", 127), ("uint8", 255), ("int16", 32767), ("uint16", 65535), ("int64", 2 ** 62)) if mx <= cap][:2 if want_table else 3])
        tot = max(sum(jd[c] for jd in jds) for c in range(len(jds[0])))
        if tot > {"int8": 127, "uint8": 255, "int16": 32767, "uint16": 65535, "int64": 2 ** 62}[np_dtype]:
            res.count("numpy_tables_whose_column_sum_exceeds_the_element_type")
    alg_rec = None
    live = None
    history = []
    if reuse:
        # call history on ONE generator object with the caller's own list object, edited in place between the calls
        rec0 = gen.Recorder()
        alg0, cls0 = gen.build_algorithm(cfg, rec0)
        alg_rec = (alg0, rec0, cls0)
        live = list(jds)
        res.count("reused_generator_cases")
    other = None
    for n_s, sched in enumerate(SCHEDULES):
        if reuse and n_s == 2 and rng.random() < 0.5:
            # a SECOND generator object of the same class with another configuration is built (and used) while the first is still alive
            cfg2 = gen.make_custom_config(rng, force=force_special) if cfg["flavour"] == "custom" else gen.make_fast_config(rng, shared_names=True)
            if cfg2["flavour"] != "custom":
                cfg2["flavour"] = cfg["flavour"]
            cfg2["path"] = cfg["path"]
            jds2, _ = gen.make_jds(rng, cfg2, nmax=12)
            r2 = run_generation(res, cfg2, jds2, ("seed", 11), oracles)
            res.count("second_live_generator_cases")
            if r2 is None:
                break
        if reuse and n_s > 0 and rng.random() < 0.5:
            how = rng.choice(["permute-rows", "append-zero-vertices", "swap-two-rows", "drop-zero-vertex"])
            if how == "permute-rows":
                rng.shuffle(live)
            elif how == "append-zero-vertices":
                for _ in range(rng.randint(1, 3)):
                    live.append(tuple([0] * len(live[0])))
            elif how == "swap-two-rows" and len(live) > 1:
                i, j = rng.sample(range(len(live)), 2)
                live[i], live[j] = live[j], live[i]
            elif how == "drop-zero-vertex":
                z = [i for i, jd in enumerate(live) if sum(jd) == 0]
                if z and len(live) > 1:
                    del live[rng.choice(z)]
            history.append(how)
            res.count("in_place_edits_between_calls")
        if reuse and n_s in (1, 4) and rng.random() < 0.3:
            # injected fault: a generation in which the caller's build callback raises at its n-th call (a failpoint in the caller's own
            # code); the caller catches it and uses the same generator object again - which must behave like a fresh one
            state = {"n": rng.choice([1, 2, 3, 5, 8])}

            def _boom(_k):
                state["n"] -= 1
                if state["n"] <= 0:
                    alg_rec[1].on_build = None
                    raise InjectedFault("raised by the caller's build callback")
            alg_rec[1].on_build = _boom
            try:
                with installed(RandomTap(seed=n_s + 77, keep_log=False), "fast", "custom"):
                    alg_rec[0].random_clustered_graph(list(live))
                res.count("generations_with_a_callback_fault_that_never_fired")
            except InjectedFault:
                res.count("generations_aborted_by_a_raising_callback")
            except Exception:
                res.count("generations_aborted_otherwise_after_a_callback_fault")
            finally:
                alg_rec[1].on_build = None
            history.append("generation aborted by a raising build callback")
        r = run_generation(res, cfg, jds if live is None else list(live), sched, oracles, alg_rec=alg_rec, jds_live=live, np_dtype=np_dtype)
        if r is None:
            break
        for c in r[0].calls:
            shapes.add("bare" if c[3] == "bare" else min(len(c[2]), 3))
    n_inst = sum(inst)
    res.nontrivial = n_inst >= 2 and (any(sum(jd) == 0 for jd in jds) or any(x >= 2 for jd in jds for x in jd))
    res.extra_shapes = shapes
    res.digest = digest([cfg, jds])
    res.sample = {"cfg": cfg, "jds": jds if len(jds) <= 30 else jds[:30] + ["... %d more" % (len(jds) - 30)]}
    return res
