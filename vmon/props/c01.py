"""C01 - generated graphs realise exactly the requested joint degree sequence.

Monitor: recording build callbacks (the generator's only side channel), RandomTap on both generator
modules (seeded and adversarial-but-possible shuffles), the returned edge list / network, and a
deep copy of the input.  Oracle: stub-multiset conservation per topology / orbit, by pure counting
over the call log.
"""
import copy
import random

from ..common import Result, sut, digest
from ..taps import RandomTap, installed
from .. import gen

ID = "C01"
RULE = ("random handshake-consistent joint degree sequences (N 1..40 quick / 1..400 thorough, 1..4 topologies, zero-degree vertices "
        "forced in ~40%, all-zero columns ~10%, stubs uniform / concentrated / all on one vertex) x motif configurations (cliques 2..5, "
        "cycles 3..6, diamond, star, path, chorded cycle, library or harness builders; custom multi-orbit motifs with orbit structures "
        "(1),(2),(3),(4),(1,2),(2,1),(1,3),(2,2),(2,2,1),(1,1),(1,1,1)) x {fast, network, custom} x {direct, GCMAlgorithmMain enum/str, "
        "factory} x 7 RNG schedules (3 seeds + identity/reverse/rotate/sort-descending shuffles); a case = one (jds, configuration) under "
        "all schedules; non-trivial = >=2 motif instances and (a zero-degree vertex or a vertex with degree >=2 in a topology); "
        "distinct = SHA-1 of (configuration, jds)")
ASSUMPTIONS = ["only handshake-consistent inputs are generated (column sums divisible; equal instance counts across a motif's orbits)",
               "the oracle is order- and orientation-insensitive and never looks at which stubs met, only at conservation"]
HEADLINE = ["generations", "motif_instances", "columns_conserved", "edgelist_outputs", "network_outputs", "fast", "network", "custom",
            "path_direct", "path_factory", "path_main-enum", "path_main-str", "shuffle_calls", "zero_degree_cases", "multi_orbit_cases"]
REQUIRED = {t: {"fast": 20, "network": 20, "custom": 20, "path_direct": 10, "path_factory": 10, "path_main-enum": 10,
                "path_main-str": 10, "zero_degree_cases": 20, "multi_orbit_cases": 10, "shuffle_calls": 100}
            for t in ("quick", "thorough")}
SCHEDULES = [("seed", 1), ("seed", 2), ("seed", 3), ("preset", "identity"), ("preset", "reverse"), ("preset", "rotate"), ("preset", "sortdesc")]


def gen_cases(tier, seed):
    n = 400 if tier == "quick" else 40000
    return [{"seed": seed * 100069 + i, "nmax": 40 if tier == "quick" or i % 10 else 400} for i in range(n)]


def run_generation(res, cfg, jds, sched, oracles):
    rec = gen.Recorder()
    alg, cls = gen.build_algorithm(cfg, rec)
    kind, val = sched
    tap = RandomTap(seed=val if kind == "seed" else 0, preset={"shuffle": val} if kind == "preset" else None, keep_log=False)
    jds_in = copy.deepcopy(jds)
    with installed(tap, "fast", "custom"):
        out = sut(f"{cls.__name__}.random_clustered_graph", alg.random_clustered_graph, jds_in)
    res.count("generations")
    res.count("shuffle_calls", tap.counts["shuffle"])
    res.count(cfg["flavour"])
    res.count("path_" + cfg["path"])
    ctx = {"cfg": cfg, "jds": jds, "schedule": list(sched)}
    for o in oracles:
        if o == "conservation":
            if not gen.oracle_conservation(res, cfg, jds_in, jds, rec, out, tap, ctx):
                return None
        elif o == "columns":
            if not gen.oracle_columns(res, cfg, jds, rec, out, ctx):
                return None
    return rec, out


def run_case(case, oracles=("conservation",), custom_share=0.35, force_special=False):
    res = Result()
    rng = random.Random(case["seed"])
    if rng.random() < custom_share:
        cfg = gen.make_custom_config(rng, force=force_special)
    else:
        cfg = gen.make_fast_config(rng, allow_empty="columns" not in oracles)
    jds, inst = gen.make_jds(rng, cfg, nmax=case.get("nmax", 40), heavy=rng.random() < 0.2)
    if any(sum(jd) == 0 for jd in jds):
        res.count("zero_degree_cases")
    if cfg["flavour"] == "custom" and any(len(m[0]) > 1 for m in cfg["motifs"]):
        res.count("multi_orbit_cases")
    if cfg["flavour"] == "custom" and any(m[2] in ("generator", "iter") for m in cfg["motifs"]):
        res.count("oneshot_name_iterables")
    shapes = set()
    for sched in SCHEDULES:
        r = run_generation(res, cfg, jds, sched, oracles)
        if r is None:
            break
        for c in r[0].calls:
            shapes.add("bare" if c[3] == "bare" else min(len(c[2]), 3))
    n_inst = sum(inst)
    res.nontrivial = n_inst >= 2 and (any(sum(jd) == 0 for jd in jds) or any(x >= 2 for jd in jds for x in jd))
    res.extra_shapes = shapes
    res.digest = digest([cfg, jds])
    res.sample = {"cfg": cfg, "jds": jds if len(jds) <= 30 else jds[:30] + ["... %d more" % (len(jds) - 30)]}
    return res
