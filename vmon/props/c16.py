"""C16 - closed-form clique and cycle equations and their graph counts are exact.

Monitor: shadow-value execution of clique_equation / chordless_cycle_equation with exact-polynomial
arguments (distinct symbolic H_j), integer return values of Q, QQ and number_of_connected_graphs.
Oracle: brute force over 2^|E| edge states for the equations; for the counts an independent recurrence
on edge-generating polynomials (not the Harary-Palmer form the code uses) plus brute-force counting,
and the OEIS row for n = 6 as a constant anchor.
"""
import itertools
import random
from fractions import Fraction
from math import comb

import networkx as nx

from ..common import Result, sut, digest, SutRaised
from ..interfere import interfere
from ..exactpoly import P, percolation_poly, percolation_counts, percolation_value, ShadowUnsupported

ID = "C16"
RULE = ("clique equation tau = 2..6 (quick) / 2..7 (thorough) with distinct symbolic neighbour values, and float spot checks with heterogeneous "
        "values plus a grid of special points (0, 1, 2, -1, 1/2, 1/4, 4, ..., and pairs with phi*u == 1 exactly) evaluated in exact rationals; chordless cycle equation n = 3..12 (quick) / 3..16 (thorough); Q(n,k) for all 1 <= n <= 10 (quick) / 14 (thorough) and all k in "
        "[-1, C(n,2)+1]; QQ(n,k) for n <= 5 (quick) / 6 (thorough); number_of_connected_graphs on random substrates with <= 7 vertices, random "
        "vertex subsets containing the focal vertex, all k; non-trivial = tau >= 3 / n >= 4 / n >= 3 / induced subgraph with a cycle; "
        "distinct = SHA-1 of the concrete arguments")
RULE += '; round m: substrates with self-loops (25%), vertex lists taken from the neighbour iterator (so that they contain the focal vertex when it has a self-loop)'
ASSUMPTIONS = ["polynomial identity after full expansion", "connected labelled graph counts from the recurrence C_n(y) = (1+y)^C(n,2) - sum_j C(n-1,j-1) C_j(y) (1+y)^C(n-j,2)"]
HEADLINE = ["clique_identities", "cycle_identities", "float_checks", "Q_values", "QQ_values", "counter_checks", "sweep_substrates", "sweep_counter_checks", "oeis_anchor", "shadow_unsupported", "special_point_checks"]
REQUIRED = {t: {"clique_identities_or_numeric": 4, "cycle_identities_or_numeric": 8, "Q_values": 150, "QQ_values": 20, "counter_checks": 200, "oeis_anchor": 1,
                "float_checks": 50, "special_point_checks": 500} for t in ("quick", "thorough")}
SHARD_TIMEOUT = {"quick": 900, "thorough": 10800}
OEIS_N6 = [1, 15, 105, 455, 1365, 2997, 4945, 6165, 5700, 3660, 1296, 0]   # connected labelled graphs, 6 vertices, 15..4 edges


def finalize(counters, sets, tier):
    # the polynomial identity or, where the tree computes in a way the shadow values cannot follow, the widened numeric part
    counters["clique_identities_or_numeric"] = counters.get("clique_identities", 0) + counters.get("shadow_unsupported", 0)
    counters["cycle_identities_or_numeric"] = counters.get("cycle_identities", 0) + counters.get("shadow_unsupported", 0)
    return {}


def gen_cases(tier, seed):
    q = tier == "quick"
    cases = []
    for tau in range(2, 7 if q else 8):
        cases.append({"kind": "clique", "tau": tau, "seed": seed, "_cost": 4 ** tau})
    for n in range(3, 13 if q else 17):
        cases.append({"kind": "cycle", "n": n, "seed": seed, "_cost": 2 ** n / 16})
    cases.append({"kind": "Q", "nmax": 10 if q else 14, "seed": seed, "_cost": 50})
    for n in range(1, 6 if q else 7):
        cases.append({"kind": "QQ", "n": n, "seed": seed, "_cost": 4 ** n / 4})
    for j in range(40 if q else 600):
        cases.append({"kind": "counter", "seed": seed * 100297 + j, "_cost": 20})
    # one process, MANY substrates: every connected 6-vertex graph (quick: those with <= 12 edges) for every k, in two different
    # orders - among them the pairs that cheap graph invariants cannot tell apart (K_{3,3} / prism and friends)
    for j in range(2):
        cases.append({"kind": "counter-sweep", "seed": seed * 100297 + 5000 + j, "max_edges": 12 if q else 15, "_cost": 60})
    if not q:
        cases.append({"kind": "repo-tests", "seed": seed, "_cost": 200})
    return cases


_conn_cache = {}


def connected_counts(n):
    """coefficient list of C_n(y): number of connected labelled graphs on n vertices by edge count"""
    if n in _conn_cache:
        return _conn_cache[n]

    def polymul(a, b):
        r = [0] * (len(a) + len(b) - 1)
        for i, x in enumerate(a):
            if x:
                for j, y in enumerate(b):
                    r[i + j] += x * y
        return r

    def all_graphs(m):
        e = m * (m - 1) // 2
        return [comb(e, k) for k in range(e + 1)]
    tot = all_graphs(n)
    for j in range(1, n):
        term = polymul(connected_counts(j), all_graphs(n - j))
        c = comb(n - 1, j - 1)
        for k, v in enumerate(term):
            tot[k] -= c * v
    _conn_cache[n] = tot
    return tot


def brute_counter(G, members, k):
    H = G.subgraph(members)
    es = list(H.edges())
    cnt = 0
    for rem in itertools.combinations(range(len(es)), k):
        J = nx.Graph()
        J.add_nodes_from(members)
        J.add_edges_from(e for i, e in enumerate(es) if i not in rem)
        if nx.is_connected(J):
            cnt += 1
    return cnt


def run_case(case):
    import gcmpy
    from gcmpy.message_passing.equations.clique_equation import clique_equation
    from gcmpy.message_passing.equations.chordless_cycle_equation import chordless_cycle_equation
    from gcmpy.message_passing import number_connected_graphs as ncg
    if case.get("kind") == "repo-tests":
        from ..repotests import run as _run_repo_tests
        res = Result()
        _run_repo_tests(ID, res)
        res.nontrivial = True
        res.digest = "repo-tests"
        res.sample = {"kind": "repo-tests", "notes": res.notes[:2]}
        return res
    res = Result()
    rng = random.Random(case["seed"])
    k = case["kind"]
    if k == "clique":
        tau = case["tau"]
        Hs = [P.var("u%d" % j) for j in range(1, tau)]
        g = nx.complete_graph(tau)
        want = percolation_poly(list(g.nodes()), list(g.edges()), 0)
        nfloat = 12
        try:
            got = sut("clique_equation(poly)", clique_equation, tau, P.var("phi"), Hs)
            res.count("clique_identities")
            got = got if isinstance(got, P) else P.const(got)
        except SutRaised as e:
            if not isinstance(e.exc, ShadowUnsupported):
                raise
            # the tree computes in a way exact polynomials cannot follow: numeric part only, with many more points
            res.count("shadow_unsupported")
            got, nfloat = want, 150
        if got.t != want.t:
            res.violate("clique-equation-is-not-the-percolation-expectation", tau=tau, differing_terms=got.diff_sample(want),
                        terms_got=got.nterms(), terms_want=want.nterms())
        else:
            counts, m = percolation_counts(list(g.nodes()), list(g.edges()), 0)
            import numpy as np
            for it in range(nfloat):
                phi = rng.choice([0.0, 1.0, rng.random(), rng.random()])
                us = {j: rng.choice([0.0, 1.0, rng.random(), rng.random(), rng.random()]) for j in range(1, tau)}
                if it % 4 == 3:
                    # other features of the library used in between; then values as a numpy-based caller holds them (np.float64) and as
                    # small as messages get deep in the non-percolating phase (products underflow - quietly, to the exact answer 0)
                    interfere(rng, None, res, only=("distribution factories", "sampled JointDegreeMarginal", "split-degree loaders"), k=2)
                    phi = np.float64(phi)
                    us = {j: np.float64(rng.choice([1e-170, 1e-200, 1e-45, u])) for j, u in us.items()}
                    res.count("float_checks_on_tiny_numpy_values_after_other_features")
                v = sut("clique_equation(float)", clique_equation, tau, phi, [us[j] for j in range(1, tau)])
                w = percolation_value(counts, m, 0, phi, us)
                res.count("float_checks")
                if abs(float(v) - w) > 1e-10:
                    res.violate("clique-equation-differs(float)", tau=tau, phi=phi, H=us, got=float(v), want=w); break
                # order of the neighbour values must not matter
                perm = list(us.values()); rng.shuffle(perm)
                v2 = sut("clique_equation(float, permuted H)", clique_equation, tau, phi, perm)
                if abs(float(v2) - w) > 1e-10:
                    res.violate("clique-equation-depends-on-neighbour-order", tau=tau, phi=phi, got=float(v2), want=w); break
            # special points: "all real phi and neighbour values" - values where a closed form or a shortcut could branch
            if res.verdict == "held":
                SP = [0, 1, 2, -1, Fraction(1, 2), Fraction(1, 4), 4, Fraction(-1, 2)]
                for _ in range(40):
                    phi = rng.choice(SP)
                    us = {j: rng.choice(SP) for j in range(1, tau)}
                    if rng.random() < 0.5 and tau > 2 and phi not in (0,):
                        us[1] = Fraction(1) / Fraction(phi)              # phi * H == 1 exactly
                    v = sut("clique_equation(special point)", clique_equation, tau, phi, [us[j] for j in range(1, tau)])
                    w = want.subs({"phi": float(phi), **{"u%d" % j: float(x) for j, x in us.items()}})
                    res.count("special_point_checks")
                    vals = {"phi": float(phi), **{"u%d" % j: float(x) for j, x in us.items()}}
                    if abs(float(v) - w) > 1e-11 * max(1.0, want.abs_subs(vals)):
                        res.violate("clique-equation-differs-at-a-special-point", tau=tau, phi=str(phi), H={j: str(x) for j, x in us.items()}, got=float(v), want=w); break
        res.nontrivial = tau >= 3
        res.sample = {"kind": k, "tau": tau, "terms": want.nterms()}
    elif k == "cycle":
        n = case["n"]
        g = nx.cycle_graph(n)
        want = percolation_poly(list(g.nodes()), list(g.edges()), 0, common_u="u")
        nfloat = 6
        try:
            got = sut("chordless_cycle_equation(poly)", chordless_cycle_equation, n, P.var("u"), P.var("phi"))
            res.count("cycle_identities")
            got = got if isinstance(got, P) else P.const(got)
        except SutRaised as e:
            if not isinstance(e.exc, ShadowUnsupported):
                raise
            res.count("shadow_unsupported")
            got, nfloat = want, 100
        if got.t != want.t:
            res.violate("cycle-equation-is-not-the-percolation-expectation", n=n, differing_terms=got.diff_sample(want))
        else:
            counts, m = percolation_counts(list(g.nodes()), list(g.edges()), 0)
            for _ in range(nfloat):
                phi, u = rng.choice([0.0, 1.0, rng.random(), rng.random()]), rng.choice([0.0, 1.0, rng.random(), rng.random()])
                v = sut("chordless_cycle_equation(float)", chordless_cycle_equation, n, u, phi)
                w = percolation_value(counts, m, 0, phi, {j: u for j in g.nodes()})
                res.count("float_checks")
                if abs(float(v) - w) > 1e-10:
                    res.violate("cycle-equation-differs(float)", n=n, phi=phi, u=u, got=float(v), want=w); break
            if res.verdict == "held":
                SP = [0, 1, 2, -1, Fraction(1, 2), Fraction(1, 4), 4, Fraction(-1, 2), -2, Fraction(1, 3), 3]
                for phi in SP:
                    for u in SP + ([Fraction(1) / Fraction(phi)] if phi else []):
                        v = sut("chordless_cycle_equation(special point)", chordless_cycle_equation, n, u, phi)
                        w = want.subs({"phi": float(phi), "u": float(u)})
                        res.count("special_point_checks")
                        if abs(float(v) - w) > 1e-11 * max(1.0, want.abs_subs({"phi": float(phi), "u": float(u)})):
                            res.violate("cycle-equation-differs-at-a-special-point", n=n, phi=str(phi), u=str(u), got=float(v), want=w); break
                    if res.verdict != "held":
                        break
        res.nontrivial = n >= 4
        res.sample = {"kind": k, "n": n}
    elif k == "Q":
        order = [(n, kk) for n in range(1, case["nmax"] + 1) for kk in range(-1, n * (n - 1) // 2 + 2)]
        rng.shuffle(order)      # call history: the memoised recursion must not depend on evaluation order
        for n, kk in order:
            v = sut("Q(%d,%d)" % (n, kk), ncg.Q, n, kk)
            cc = connected_counts(n)
            w = cc[kk] if 0 <= kk < len(cc) else 0
            res.count("Q_values")
            if v != w:
                res.violate("Q-is-not-the-number-of-connected-labelled-graphs", n=n, k=kk, got=v, want=w); break
        if res.verdict == "held":
            res.count("oeis_anchor")
            row = [sut("Q(6,k)", ncg.Q, 6, 15 - i) for i in range(len(OEIS_N6))]
            if row != OEIS_N6 or [connected_counts(6)[15 - i] if 15 - i >= 0 else 0 for i in range(len(OEIS_N6))] != OEIS_N6:
                res.violate("Q(6,.)-differs-from-the-published-row", got=row, want=OEIS_N6)
        res.nontrivial = True
        res.sample = {"kind": k, "nmax": case["nmax"], "first_calls": order[:10]}
    elif k == "QQ":
        n = case["n"]
        for kk in range(0, n * (n - 1) // 2 + 1):
            v = sut("QQ(%d,%d)" % (n, kk), ncg.QQ, n, kk)
            w = connected_counts(n)[kk]
            res.count("QQ_values")
            if v != w:
                res.violate("QQ-is-not-the-number-of-connected-labelled-graphs", n=n, k=kk, got=v, want=w); break
        res.nontrivial = n >= 3
        res.sample = {"kind": k, "n": n}
    elif k == "counter-sweep":
        from ..graphfam import atlas, atlas_graph
        ids = [i for i in atlas(6) if atlas_graph(i).number_of_nodes() == 6 and nx.is_connected(atlas_graph(i)) and atlas_graph(i).number_of_edges() <= case["max_edges"]]
        rng.shuffle(ids)
        for gi in ids:
            G = nx.Graph(atlas_graph(gi))
            if rng.random() < 0.5:
                G = nx.relabel_nodes(G, dict(zip(list(G.nodes()), rng.sample(range(30), G.number_of_nodes()))))
            nodes = list(G.nodes())
            i = rng.choice(nodes)
            ak = [v for v in nodes if v != i]
            rng.shuffle(ak)
            for kk in range(0, G.number_of_edges() + 1):
                v = sut("number_of_connected_graphs", ncg.number_of_connected_graphs, G, list(ak), i, kk)
                w = brute_counter(G, nodes, kk)
                res.count("counter_checks")
                res.count("sweep_counter_checks")
                if v != w:
                    res.violate("connected-subgraph-counter-differs", atlas_graph=gi, edges=sorted(map(tuple, map(sorted, G.edges()))), focal=i, ak=ak, k=kk, got=v, want=w,
                                note="%d other substrates were counted in this process before" % ids.index(gi)); break
            if res.verdict != "held":
                break
        res.count("sweep_substrates", len(ids))
        res.nontrivial = True
        res.sample = {"kind": k, "substrates": len(ids), "first": ids[:10]}
    else:
        n = rng.randint(2, 7)
        G = nx.gnp_random_graph(n, rng.choice([0.4, 0.6, 0.8, 1.0]), seed=rng.randrange(1 << 30))
        if rng.random() < 0.4:
            G = nx.relabel_nodes(G, dict(zip(range(n), rng.sample(range(40), n))))
        if rng.random() < 0.2 and G.number_of_edges() and G.number_of_edges() <= 8:
            # "all substrate graphs": a MultiGraph with parallel edges - every edge INSTANCE is an edge that can be deleted
            M = nx.MultiGraph()
            M.add_nodes_from(G.nodes())
            for a, b in G.edges():
                for _ in range(rng.choice([1, 1, 2, 3])):
                    M.add_edge(a, b)
            G = M
            res.count("multigraph_substrates")
        nodes = list(G.nodes())
        loops = []
        if rng.random() < 0.25:
            # "all substrate graphs": self-loops are edges of the substrate too (deleting one never disconnects anything), and with one on the
            # focal vertex the natural vertex list `list(G.neighbors(i))` contains the focal vertex itself
            loops = rng.sample(nodes, rng.randint(1, min(2, len(nodes))))
            for v in loops:
                G.add_edge(v, v)
            res.count("substrates_with_self_loops")
        nt = False
        snap = (sorted(G.nodes()), sorted(map(tuple, map(sorted, G.edges()))))
        for _ in range(6):
            i = rng.choice(nodes) if not loops or rng.random() < 0.5 else rng.choice(loops)
            ak = rng.sample([v for v in nodes if v != i], rng.randint(0, n - 1))
            if rng.random() < 0.35:
                ak = list(G.neighbors(i))          # the neighbours as the graph lists them (the focal vertex among them if it has a self-loop)
                res.count("vertex_lists_taken_from_the_neighbour_iterator")
            members = [i] + ak
            me = G.subgraph(members).number_of_edges()
            ks = range(0, me + 2) if me <= 11 else [0, 1, 2, me - 1, me, me + 1]
            for kk in ks:
                v = sut("number_of_connected_graphs", ncg.number_of_connected_graphs, G, list(ak), i, kk)
                w = brute_counter(G, members, kk) if kk <= me else 0
                res.count("counter_checks")
                if v != w:
                    res.violate("connected-subgraph-counter-differs", edges=snap[1], focal=i, ak=ak, k=kk, got=v, want=w); break
            if res.verdict != "held":
                break
            if me >= len(members) >= 3:
                nt = True
        if (sorted(G.nodes()), sorted(map(tuple, map(sorted, G.edges())))) != snap:
            res.violate("counter-mutated-its-substrate")
        res.nontrivial = nt
        res.sample = {"kind": k, "edges": snap[1]}
    res.digest = digest([res.sample, case.get("seed")])
    return res
