"""C05 - sampled joint degree sequences are handshake-consistent minimal perturbations.

Monitor: RandomTap on gcmpy.joint_degree.joint_degree logs the `choices` call (population, weights,
k and a copy of the raw draws) and every `randrange`; the return value is recorded and then fed to
real downstream consumers (JointDegreeEmpirical, GCMAlgorithmFast).  Oracle: counting rules (exact)
and chi-square of key frequencies against the normalised weights.
"""
import numbers
import random
from collections import Counter

from ..common import Result, sut, digest
from ..taps import RandomTap, installed, InjectedFault
from ..interfere import interfere
from ..stats import two_stage

ID = "C05"
RULE = ("distributions with 1..12 keys, 1..4 topologies, entries 0..6, positive unnormalised weights spanning 1e-3..1e3 "
        "(equal weights and one dominant weight included), motif sizes from {1..5} (all-ones and size-1 columns included), "
        "N in {1,2,3,5,10,100,1000} and random 1..80; RNG seeded, and randrange forced to 0 / N-1 (all extra stubs on one vertex); "
        "carriers: manual and empirical loaders; call histories on one loader object: sample, then change the distribution through the public interface "
        "(jdd setter, in-place edit of the mapping, new observations + create_jdd, motif_sizes setter, create_jdd again), then sample again - the oracle "
        "always refers to the distribution current at the time of the call; non-trivial = at least one column needed extra stubs; "
        "distinct = SHA-1 of (keys, weights, sizes, N, schedule)")
RULE += ("; rounds k-l added: " + 'degrees beyond a machine word (entries up to 2**63+5, totals beyond 2**63)')
RULE += '; round m: the motif_sizes setter assigned the very list the loader already holds (35% of the setter steps)'
ASSUMPTIONS = ["raw draws are observed through random.choices in joint_degree.py; if that hook is not seen the minimality clause "
               "falls back to: every entry dominates some key and the total distance to the nearest dominated keys is at most sum(size_i - 1)",
               "key frequencies: Pearson chi-square two-stage protocol on N=20000"]
HEADLINE = ["samplings_aborted_by_injected_fault", "refused_configuration_calls", "inadmissible_sizes_accepted_then_reset", "samplings", "history_updates", "weights_checked_at_hook", "columns_needing_stubs", "stubs_added", "choices_hook_seen", "fallback_minimality", "preset_randrange", "downstream_empirical", "downstream_generate", "chi2_tests", "chi2_escalations", "size1_columns"]
REQUIRED = {t: {"columns_needing_stubs": 50, "choices_hook_or_fallback": 50, "downstream_empirical": 20,
                "downstream_generate": 20, "chi2_tests": 5, "size1_columns": 10, "preset_randrange": 20, "history_updates": 50} for t in ("quick", "thorough")}


def gen_cases(tier, seed):
    n = 300 if tier == "quick" else 40000
    cases = [{"seed": seed * 100057 + i} for i in range(n)]
    if tier == "thorough":
        cases.append({"kind": "repo-tests", "seed": seed, "_cost": 500})
    return cases


def make_dist(rng):
    T = rng.choice([1, 2, 2, 3, 4])
    nk = rng.randint(1, 12)
    top = 7 if rng.random() < 0.9 else rng.choice([300, 70000, 2 ** 62, 2 ** 63 + 5])      # rarely: degrees beyond 255 / 65535 / what a machine word holds (Python integers have no width: totals beyond 2**63 are totals)
    keys = list({tuple(rng.randrange(0, top) for _ in range(T)) for _ in range(nk)})
    wstyle = rng.choice(["spread", "equal", "dominant", "normalised", "almost-normalised"])
    if wstyle == "equal":
        w = [1.0] * len(keys)
    elif wstyle == "dominant":
        w = [1e-3] * len(keys)
        w[rng.randrange(len(keys))] = 1e3
    else:
        w = [10 ** rng.uniform(-3, 3) for _ in keys]
        if wstyle == "normalised":
            s = sum(w)
            w = [x / s for x in w]
        if wstyle == "almost-normalised":
            # a truncated analytic pmf: geometric weights over the listed keys, the tail beyond the table (1e-12..1e-7) missing,
            # the last key tiny - "normalised or not" includes "almost"
            q = rng.choice([0.3, 0.5, 0.6])
            w = [(1 - q) * q ** i for i in range(len(keys))]
            eps = 10 ** rng.uniform(-12, -7)
            s = sum(w)
            w = [x / s * (1 - eps) for x in w]
            if len(w) > 1:
                tiny = min(w[-1], 10 ** rng.uniform(-11, -9))
                w[0] += w[-1] - tiny          # the total stays 1 - eps
                w[-1] = tiny
    sstyle = rng.choice(["mixed", "mixed", "ones", "big"])
    if sstyle == "ones":
        sizes = [1] * T
    elif sstyle == "big":
        sizes = [rng.choice([4, 5]) for _ in range(T)]
    else:
        sizes = [rng.choice([1, 2, 2, 3, 3, 4, 5]) for _ in range(T)]
    return T, keys, w, sizes


def check_sample(res, L, N, keys, sizes, tap, ctx, weights=None):
    T = len(sizes)
    n0 = len(tap.log)
    N_arg = N
    if N % 7 == 3:
        import numpy as np
        N_arg = np.int64(N)          # the network size as the caller may hold it (len() of an array, an element of one)
        res.count("sample_sizes_given_as_numpy_integers")
    out = sut("sample_jds_from_jdd", L.sample_jds_from_jdd, N_arg)
    res.count("samplings")
    ev = tap.log[n0:]
    ch = [e for e in ev if e[0] == "choices"]
    if not isinstance(out, list) or len(out) != N:
        res.violate("wrong-length", got=(len(out) if hasattr(out, "__len__") else repr(out)), want=N, ctx=ctx); return None
    for v, e in enumerate(out):
        if not (isinstance(e, tuple) and len(e) == T and all(isinstance(x, numbers.Integral) and not isinstance(x, bool) and x >= 0 for x in e)):
            res.violate("entry-not-a-tuple-of-nonnegative-ints", index=v, entry=repr(e), ctx=ctx); return None
    col = [sum(e[i] for e in out) for i in range(T)]
    for i, s in enumerate(sizes):
        if col[i] % s:
            res.violate("column-sum-not-divisible", column=i, total=col[i], size=s, ctx=ctx); return None
    raw = None
    if len(ch) == 1 and ch[0][2] is not None and len(ch[0][2]) == N:
        raw = ch[0][2]
        res.count("choices_hook_seen")
        res.count("choices_hook_or_fallback")
        pop, wts, k = ch[0][1]
        if sorted(pop) != sorted(keys):
            res.violate("population-is-not-the-current-key-set", got=pop[:10], ctx=ctx); return None
        if wts is not None and weights is not None:
            zw, zm = float(sum(wts)), float(sum(weights))
            model = dict(zip(keys, weights))
            # (absolute on the normalised scale: weights recovered from a cumulative table carry a rounding error of ~1e-16, not more)
            if any(abs(w / zw - model[k] / zm) > 1e-12 for k, w in zip(pop, wts)):
                res.violate("draw-weights-are-not-proportional-to-the-current-distribution", passed=list(zip(pop, wts))[:8], ctx=ctx); return None
            res.count("weights_checked_at_hook")
        need_any = False
        for i, s in enumerate(sizes):
            r = sum(e[i] for e in raw)
            need = (s - r % s) % s
            added = col[i] - r
            if need:
                need_any = True
                res.count("columns_needing_stubs")
                res.count("stubs_added", added)
            if added != need:
                res.violate("not-the-fewest-added-stubs", column=i, size=s, raw_total=r, added=added, needed=need, ctx=ctx); return None
        for v in range(N):
            if any(out[v][i] < raw[v][i] for i in range(T)):
                res.violate("a-stub-was-removed", index=v, raw=raw[v], out=out[v], ctx=ctx); return None
    else:
        # reduced strength: hook not observed (refactor draws differently)
        res.count("fallback_minimality")
        res.count("choices_hook_or_fallback")
        need_any = False
        extra = 0
        for v, e in enumerate(out):
            dom = [k for k in keys if all(e[i] >= k[i] for i in range(T))]
            if not dom:
                res.violate("entry-dominates-no-key", index=v, entry=e, ctx=ctx); return None
            extra += min(sum(e[i] - k[i] for i in range(T)) for k in dom)
        if extra:
            need_any = True
            res.count("columns_needing_stubs")
        # sound without knowing the raw draws: the true draw of an entry is one of its dominated keys
        if extra > sum(s - 1 for s in sizes):
            res.violate("more-stubs-added-than-any-minimal-patch", added_at_least=extra, bound=sum(s - 1 for s in sizes), ctx=ctx); return None
    if 1 in sizes:
        res.count("size1_columns")
    return out, raw, need_any


def run_case(case):
    import gcmpy
    from gcmpy import JointDegreeNames as N_, GCMAlgorithmNames as G
    if case.get("kind") == "repo-tests":
        from ..repotests import run as _run_repo_tests
        res = Result()
        _run_repo_tests(ID, res)
        res.nontrivial = True
        res.digest = "repo-tests"
        res.sample = {"kind": "repo-tests", "notes": res.notes[:2]}
        return res
    res = Result()
    rng = random.Random(case["seed"])
    T, keys, w, sizes = make_dist(rng)
    jdd = dict(zip(keys, w))
    carrier = rng.choice(["manual", "manual", "empirical", "split-degree"]) if T <= 3 else rng.choice(["manual", "manual", "empirical"])
    # the distribution is "a mapping from joint degree to weight": a dict, or any other Mapping a caller may hold
    mform = rng.choice(["dict", "dict", "dict", "OrderedDict", "defaultdict", "MappingProxyType", "ChainMap", "UserDict"])

    def as_mapping(d):
        import collections
        import types
        if mform == "OrderedDict":
            return collections.OrderedDict(d)
        if mform == "defaultdict":
            return collections.defaultdict(float, d)
        if mform == "MappingProxyType":
            return types.MappingProxyType(dict(d))
        if mform == "ChainMap":
            return collections.ChainMap(dict(d))
        if mform == "UserDict":
            return collections.UserDict(d)
        return dict(d)
    if carrier == "split-degree":
        # the sampler is the base-class one for EVERY loader: here a split-degree loader, built after another split-degree loader with
        # another number of topologies in the same process
        Tother = rng.choice([t for t in (1, 2, 3) if t != T])
        sut("JointDegreeSplitDegree (another model first)", gcmpy.JointDegreeSplitDegree,
            {N_.FP: gcmpy.poisson(2.0), N_.PROBS: [1.0 / Tother] * Tother, N_.MOTIF_SIZES: list(range(2, Tother + 2)), N_.LOW_HIGH_DEGREE_BOUND: (0, rng.randint(5, 12))})
        pr = [rng.random() + 0.05 for _ in range(T)]
        pr = [x / sum(pr) for x in pr]
        L = sut("JointDegreeSplitDegree", gcmpy.JointDegreeSplitDegree,
                {N_.FP: gcmpy.poisson(rng.choice([1.5, 2.5])), N_.PROBS: pr, N_.MOTIF_SIZES: list(sizes), N_.LOW_HIGH_DEGREE_BOUND: (0, rng.randint(4, 9))})
        d0 = sut("read .jdd", lambda: L.jdd)
        keys, w = list(d0.keys()), list(d0.values())
        res.count("split_degree_carriers")
    elif carrier == "manual":
        if mform != "dict":
            res.count("distributions_given_as_another_mapping_type")
            res.seen("mapping_types", mform)
        L = sut("JointDegreeManual", gcmpy.JointDegreeManual, {N_.JDD: as_mapping(jdd), N_.MOTIF_SIZES: list(sizes)})
    else:
        # empirical carrier: weights are multiplicities
        jds = []
        for k in keys:
            jds += [k] * rng.randint(1, 5)
        L = sut("JointDegreeEmpirical", gcmpy.JointDegreeEmpirical, {N_.JDS: jds, N_.MOTIF_SIZES: list(sizes)})
        c = Counter(jds)
        keys = list(c)
        w = [c[k] / len(jds) for k in keys]
        cur_emp = jds
    ctx = {"keys": keys, "weights": w, "sizes": sizes, "carrier": carrier}
    nontrivial = False
    scheds = []
    history = []
    steps = rng.choice([1, 2, 3, 3])
    for step in range(steps):
        if step > 0:
            # ---- the distribution / configuration is changed through the public interface between two samplings
            how = rng.choice(["jdd-setter", "in-place", "in-place-weights", "sizes-setter", "recreate", "inadmissible-sizes"] + (["empirical-setter"] * 2 if carrier == "empirical" else []))
            if how.startswith("in-place") and carrier == "manual" and mform == "MappingProxyType":
                how = "jdd-setter"        # a read-only mapping cannot be edited in place
            history.append(how)
            res.count("history_updates")
            res.seen("update_kinds", how)
            if how == "jdd-setter":
                T2, keys, w, _ = make_dist(rng)
                while T2 != T:
                    T2, keys, w, _ = make_dist(rng)
                L.jdd = as_mapping(dict(zip(keys, w))) if carrier == "manual" else dict(zip(keys, w))
            elif how == "in-place":
                d = L.jdd
                model = dict(zip(keys, w))
                newk = tuple(rng.randrange(0, 7) for _ in range(T))
                d[newk] = model[newk] = 10 ** rng.uniform(-1, 2)
                if len(model) > 1:
                    drop = rng.choice([k for k in model if k != newk])
                    del d[drop]; del model[drop]
                keys, w = list(model), list(model.values())
            elif how == "in-place-weights":
                d = L.jdd
                model = dict(zip(keys, w))
                for k in list(model):
                    if rng.random() < 0.6:
                        d[k] = model[k] = 10 ** rng.uniform(-3, 3)
                keys, w = list(model), list(model.values())
            elif how == "sizes-setter":
                if rng.random() < 0.35:
                    # the value assigned is the very list the loader already holds (obj.motif_sizes = obj.motif_sizes, a settings object
                    # re-applied): the sizes stay what they were
                    cur = sut("read motif_sizes", lambda: L.motif_sizes)
                    L.motif_sizes = cur
                    res.count("motif_sizes_assigned_the_list_the_loader_already_holds")
                else:
                    sizes = [rng.choice([1, 2, 3, 4, 5]) for _ in range(T)]
                    L.motif_sizes = list(sizes)
            elif how == "inadmissible-sizes":
                # a configuration call with a value outside the domain (a motif size < 1): a library that REFUSES it must be left as it
                # was configured before; one that accepts it is re-configured with the admissible sizes through the same setter
                bad = list(sizes)
                bad[rng.randrange(T)] = rng.choice([0, -1, -3])
                try:
                    L.motif_sizes = bad
                    refused = False
                except Exception:
                    refused = True
                if refused:
                    res.count("refused_configuration_calls")
                else:
                    res.count("inadmissible_sizes_accepted_then_reset")
                    L.motif_sizes = list(sizes)
            elif how == "recreate":
                sut("create_jdd (again)", L.create_jdd)
                if carrier == "split-degree":
                    # the table is rebuilt from the loader's own degree function and probabilities, discarding manual edits (what that
                    # table must be is C07's subject; here it is the table the sampler has to follow from now on)
                    d1 = sut("read .jdd", lambda: L.jdd)
                    keys, w = list(d1.keys()), list(d1.values())
                if carrier == "empirical":
                    # documented behaviour: the table is rebuilt from the current observations, discarding manual edits
                    c = Counter(cur_emp)
                    keys = list(c)
                    w = [c[k] / len(cur_emp) for k in keys]
            else:
                pool = [tuple(rng.randrange(0, 7) for _ in range(T)) for _ in range(rng.randint(1, 6))]
                jds2 = [rng.choice(pool) for _ in range(rng.randint(1, 30))]
                L.empirical_jds = jds2
                cur_emp = jds2
                sut("create_jdd (after new observations)", L.create_jdd)
                c = Counter(jds2)
                keys = list(c)
                w = [c[k] / len(jds2) for k in keys]
            ctx = {"keys": keys, "weights": w, "sizes": sizes, "carrier": carrier, "history": list(history)}
        for Nv in rng.sample([1, 2, 3, 5, 10, 100, 1000], 2 if step == 0 else 1) + [rng.randint(1, 80)]:
            preset = rng.choice([None, None, "lo", "hi"])
            scheds.append((Nv, preset))
            history.append("sample(%d)" % Nv)
            if rng.random() < 0.1:
                # injected fault: a sampling call that dies at its n-th random draw (failpoint at an existing call site) and is caught
                # by the caller, who samples again from the same loader
                t0 = RandomTap(seed=rng.randrange(1 << 30), keep_log=False)
                t0.fail_at = rng.choice([1, 2, 3, 5])
                with installed(t0, "jd"):
                    try:
                        L.sample_jds_from_jdd(Nv)
                        res.count("fault_injection_samplings_not_aborted")
                    except InjectedFault:
                        res.count("samplings_aborted_by_injected_fault")
                    except Exception:
                        res.count("fault_injection_samplings_raised_otherwise")
                history.append("sample(%d) aborted by an injected exception" % Nv)
            tap = RandomTap(seed=rng.randrange(1 << 30), preset={"randrange": preset} if preset else None)
            if preset:
                res.count("preset_randrange")
            if rng.random() < 0.2:
                # other features of the library used just before (on the same random source, as in a caller's process)
                interfere(rng, tap, res, k=1)
                del tap.log[:]
            with installed(tap, "jd") as inst:
                r = check_sample(res, L, Nv, keys, sizes, tap, dict(ctx, N=Nv, preset=preset), weights=w)
            if r is None:
                break
            out, raw, need = r
            nontrivial |= need
            # the returned sequence is usable wherever the library accepts a joint degree sequence
            emp = sut("JointDegreeEmpirical(sampled jds)", gcmpy.JointDegreeEmpirical, {N_.JDS: out, N_.MOTIF_SIZES: list(sizes)})
            res.count("downstream_empirical")
            if abs(sum(emp.jdd.values()) - 1) > 1e-9:
                res.violate("downstream-empirical-not-normalised"); break
            if Nv <= 100 and sum(sum(e) for e in out) <= 60000:
                calls = Counter()

                def mk(i):
                    def b(vs):
                        calls[i] += 1
                        return gcmpy.clique_motif(vs) if len(vs) > 1 else []
                    return b
                alg = gcmpy.GCMAlgorithmFast({G.MOTIF_SIZES: list(sizes), G.BUILD_FUNCTIONS: [mk(i) for i in range(T)],
                                              G.EDGE_NAMES: ["t%d" % i for i in range(T)]})
                with installed(RandomTap(seed=1, keep_log=False), "fast"):
                    el = sut("GCMAlgorithmFast.random_clustered_graph(sampled jds)", alg.random_clustered_graph, out)
                res.count("downstream_generate")
                for i, s in enumerate(sizes):
                    if calls[i] != sum(e[i] for e in out) // s:
                        res.violate("downstream-generation-motif-count", column=i, got=calls[i]); break
        if res.verdict != "held":
            break
    # weights: chi-square on the raw draws (or on the returned entries equal to keys)
    if res.verdict == "held" and rng.random() < 0.25 and len(keys) >= 2:
        Z = sum(w)
        exp = {k: x / Z for k, x in zip(keys, w)}

        def draw(n, stage):
            tap = RandomTap(seed=case["seed"] * 11 + stage)
            with installed(tap, "jd"):
                out = sut("sample_jds_from_jdd", L.sample_jds_from_jdd, n)
            ch = [e for e in tap.log if e[0] == "choices"]
            src = ch[0][2] if len(ch) == 1 and ch[0][2] and len(ch[0][2]) == n else [e for e in out if e in exp]
            return dict(Counter(src))
        ok, info = two_stage(draw, exp, 20000, res)
        if not ok:
            res.violate("key-frequencies-reject-the-weights", info=info, ctx=ctx)
    res.nontrivial = nontrivial
    res.sample = dict(ctx, schedules=scheds, history=history)
    res.digest = digest(res.sample)
    return res
