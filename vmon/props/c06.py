"""C06 - manual, empirical, marginal and function loaders yield the documented law.

Monitor: `.jdd` of each loader read back after construction through the direct constructor and the
type-dispatching entry point; the marginal / joint callables are counting harness functions (which
points were evaluated is observed); the marginal sampler's randomness goes through a RandomTap.
Oracle: direct formulas in exact rational arithmetic; chi-square (two-stage protocol) in sampling mode.
"""
import math
import random
from collections import Counter
from fractions import Fraction
from itertools import product

from ..common import Result, sut, digest
from ..taps import RandomTap, installed
from ..stats import two_stage

ID = "C06"
RULE = ("random inputs per loader: manual = random dict; empirical = random observed sequence with repeats (N 1..500); "
        "function = non-separable positive table/function on a box up to 8 wide per dimension, 1..3 topologies, a quarter of them joint functions doing exact integer arithmetic on the degrees they are handed (binomial weights, the library's poisson with an int mean; box up to degree 58); marginal = "
        "gcmpy's own distributions or positive tables, direct and sampling mode (n_samples 20000); every loader through "
        "the direct constructor and the dispatcher (all seven JointDegreeType values for the path-equality clause); "
        "non-trivial = support >= 4 points and >= 2 distinct probabilities; distinct = SHA-1 of the concrete input")
RULE += ("; rounds k-l added: " + 'use-then-read histories: a joint degree sequence is sampled from the loader (1, 30, 3000 tuples in 30% of the loads; 10**6 tuples in 3 (quick) / 12 (thorough) dedicated cases) before its distribution is read again')
RULE += "; round n: the loader's table handed to other tools of the library (excess distributions, mean joint degree) before it is read again (30% of the loads)"
ASSUMPTIONS = ["marginal support: S = product of S_i with [kmin_i, kmax_i-1] <= S_i <= [kmin_i, kmax_i] (half-open or closed both accepted)",
               "sampling mode decided by Pearson chi-square, p>=1e-4 held, one escalation with 4x samples, p<1e-6 violated",
               "exact comparisons at 1e-12"]
HEADLINE = ["loaders", "manual", "empirical", "function", "marginal_direct", "marginal_sampling", "dispatcher_path", "dispatcher_equal_checks", "recreate_checks", "update_history_checks", "in_place_observation_edits",
            "box_points_evaluated", "shared_marginal_callable", "all_numpy_integer_marginals", "chi2_tests", "chi2_escalations"]
REQUIRED = {t: {"manual": 10, "empirical": 10, "function": 10, "marginal_direct": 10, "marginal_sampling": 5,
                "dispatcher_equal_checks": 30, "shared_marginal_callable": 8, "loaders_sampled_from_before_their_distribution_was_read": 10} for t in ("quick", "thorough")}
TOL = 1e-12


def gen_cases(tier, seed):
    n = 300 if tier == "quick" else 30000
    cases = [{"seed": seed * 100043 + i} for i in range(n)]
    # scale: direct-mode marginal tables with more than 2**16 joint degrees
    cases += [{"seed": seed * 100043 + 700000 + i, "bigbox": True, "_cost": 25} for i in range(2 if tier == "quick" else 24)]
    # use: the loader is what a million-vertex network is sampled from; afterwards it still exposes the distribution its inputs describe
    cases += [{"seed": seed * 100043 + 800000 + i, "big_sample": True, "_cost": 40} for i in range(3 if tier == "quick" else 12)]
    return cases


def _table_fn(tab, calls):
    def f(k):
        calls.append(k)
        return tab[k]
    return f


def _marginal(rng, lo, hi, calls, force=None):
    """returns (callable, exact value function as Fraction-able floats, descriptor)"""
    import gcmpy
    kind = force or rng.choice(["table", "table", "exponential", "poisson", "power_law", "cutoff", "np-int-histogram"])
    if kind == "longtail":
        style = rng.choice(["dyadic", "exponential", "poisson"])
        if style == "dyadic":
            tab = {k: 2.0 ** -(k + 1) for k in range(lo, hi + 1)}
            return _table_fn(tab, calls), ("dyadic-table", [lo, hi])
        kind = style
        par = {"exponential": [rng.choice([0.8, 1.5])], "poisson": [rng.choice([1.0, 2.5])]}[kind]
        base = {"exponential": gcmpy.exponential, "poisson": gcmpy.poisson}[kind](*par)

        def f(k):
            calls.append(k)
            return float(base(k))
        return f, (kind, par)
    if kind == "np-int-histogram":
        # unnormalised integer histograms as marginals (e.g. np.bincount of an observed degree column of a large network)
        import numpy as np
        dt = force_dtype.get("dt") or rng.choice([np.int64, np.int64, np.int32])
        top = 6_000_000 if dt is np.int64 else 60_000
        tab = {k: dt(rng.randint(top // 3, top)) for k in range(lo, hi + 1)}
        return _table_fn(tab, calls), ("np-int-histogram", sorted((k, int(v)) for k, v in tab.items()))
    if lo == 0 and kind in ("power_law", "cutoff"):
        kind = "poisson"
    if kind == "table":
        tab = {k: rng.choice([0.2, 0.5, 1.0, 1.5, 3.0]) for k in range(lo, hi + 1)}
        return _table_fn(tab, calls), ("table", sorted(tab.items()))
    par = {"exponential": [rng.choice([0.3, 0.8])], "poisson": [rng.choice([1.0, 2.5])],
           "power_law": [rng.choice([2.0, 2.5])], "cutoff": [2.0, rng.choice([5.0, 20.0])]}[kind]
    base = {"exponential": gcmpy.exponential, "poisson": gcmpy.poisson, "power_law": gcmpy.power_law,
            "cutoff": gcmpy.scale_free_cut_off}[kind](*par)

    def f(k):
        calls.append(k)
        return float(base(k))
    return f, (kind, par)


force_dtype = {}


def _same(a, b, tol=TOL):
    if set(a) != set(b):
        return False
    return all(abs(a[k] - b[k]) <= tol for k in a)


def run_case(case):
    import gcmpy
    from gcmpy import JointDegreeNames as N
    res = Result()
    rng = random.Random(case["seed"])
    kind = rng.choice(["manual", "empirical", "function", "marginal_direct", "marginal_direct", "marginal_sampling", "dispatch_all"])
    T = rng.choice([1, 2, 2, 3])
    if case.get("bigbox"):
        kind, T = "marginal_direct", rng.choice([2, 3])
    if case.get("big_sample"):
        kind, T = rng.choice(["manual", "function", "manual"]), rng.choice([1, 2])
    sizes = [rng.choice([2, 3, 4]) for _ in range(T)]
    res.count("loaders")
    sample = {"loader": kind, "T": T}
    load = gcmpy.JointDegreeDistribution.load_joint_degree

    def both(cls, typ, params, compare=True):
        """construct directly and through the dispatcher; returns the jdd of a randomly chosen path"""
        d = sut(f"{cls.__name__}(params)", cls, dict(params))
        p2 = dict(params)
        p2[N.JOINT_DEGREE_TYPE] = typ
        via = sut(f"load_joint_degree({typ})", load, p2)
        res.count("dispatcher_path")
        res.seen("dispatcher_types", typ)
        if type(via).__name__ != cls.__name__:
            res.violate("dispatcher-returned-wrong-loader", typ=typ, got=type(via).__name__); return None
        j1, j2 = d.jdd, via.jdd
        use_n = (10 ** 6 + rng.randrange(1000)) if case.get("big_sample") else (rng.choice([1, 30, 3000]) if rng.random() < 0.3 else 0)
        if isinstance(j1, dict) and j1 and rng.random() < 0.3:
            # the table the loader exposes is handed to other tools of the library (excess distributions, mean joint degree) before it is
            # read again: it is still what the loader's inputs describe
            snap0 = dict(j1)
            for nm, fn in (("JointExcessfromJDD.get_joint_excess_distributions", gcmpy.JointExcessfromJDD.get_joint_excess_distributions),
                           ("AverageJointDegreeFromJDD.get_average_joint_degrees", gcmpy.AverageJointDegreeFromJDD.get_average_joint_degrees)):
                try:
                    fn(d.jdd)
                    res.count("loader_tables_handed_to_other_tools_before_being_read")
                except Exception:      # noqa: BLE001 - those tools have their own property (C14)
                    res.count("other_tools_that_raised_on_a_loader_table")
            j1 = d.jdd
            if not (isinstance(j1, dict) and _same(j1, snap0)):
                res.violate("another-tool-of-the-library-changed-the-distribution-the-loader-exposes", typ=typ, before=repr(sorted(snap0.items()))[:300],
                            after=repr(sorted(j1.items()))[:300] if isinstance(j1, dict) else repr(j1)[:200]); return None
        if use_n and isinstance(j1, dict) and j1 and hasattr(d, "sample_jds_from_jdd"):
            # the loader is USED (a joint degree sequence is sampled from it) before its distribution is read: what it exposes is still what
            # its inputs describe.  Sampling itself is C05's business; a failure of it is only counted here.
            snap = dict(j1)
            try:
                with installed(RandomTap(seed=case["seed"] + 3, keep_log=False), "jd"):
                    d.sample_jds_from_jdd(use_n)
                res.count("loaders_sampled_from_before_their_distribution_was_read")
                res.seen("sample_sizes_drawn_from_a_loader", len(str(use_n)))
            except Exception:      # noqa: BLE001
                res.count("sampling_calls_that_raised")
            j1 = d.jdd
            if not (isinstance(j1, dict) and _same(j1, snap)):
                res.violate("sampling-from-the-loader-changed-the-distribution-it-exposes", typ=typ, n_sampled=use_n, before=repr(sorted(snap.items()))[:300],
                            after=repr(sorted(j1.items()))[:300] if isinstance(j1, dict) else repr(j1)[:200]); return None
        if compare and isinstance(j1, dict):
            # history on one loader: building the table again (what the dispatcher does once anyway) must not change it
            first = dict(j1)
            for _ in range(rng.choice([1, 2])):
                sut(f"{cls.__name__}.create_jdd (again)", d.create_jdd)
                res.count("recreate_checks")
                if not (isinstance(d.jdd, dict) and _same(d.jdd, first)):
                    res.violate("building-the-table-again-changed-the-distribution", typ=typ, first=repr(sorted(first.items()))[:300], again=repr(sorted(d.jdd.items()))[:300] if isinstance(d.jdd, dict) else repr(d.jdd)); return None
            j1 = d.jdd
        if compare:
            res.count("dispatcher_equal_checks")
            if not (isinstance(j1, dict) and isinstance(j2, dict) and _same(j1, j2)):
                res.violate("dispatcher-and-direct-differ", typ=typ, direct=repr(j1)[:300], dispatched=repr(j2)[:300]); return None
        return j1 if rng.random() < 0.5 else j2

    if kind == "manual":
        res.count("manual")
        keys = list({tuple(rng.randrange(0, 6) for _ in range(T)) for _ in range(rng.randint(1, 12))})
        jdd = {k: rng.choice([0.1, 0.25, 1.0, 2.0, rng.random()]) for k in keys}
        given = dict(jdd)
        got = both(gcmpy.JointDegreeManual, "manual", {N.JDD: jdd, N.MOTIF_SIZES: sizes})
        if got is None:
            return res
        if got != given:
            res.violate("manual-loader-changed-the-dictionary", got=repr(got)[:300], want=repr(given)[:300])
        if any(v < 0 for v in got.values()):
            res.violate("negative-mass")
        support, probs = given, set(given.values())
        sample["jdd"] = sorted(given.items())
    elif kind == "empirical":
        res.count("empirical")
        pool = [tuple(rng.randrange(0, 5) for _ in range(T)) for _ in range(rng.randint(1, 8))]
        n = rng.choice([1, 2, 3, 7, 50, 500])
        jds = [rng.choice(pool) for _ in range(n)]
        want = {k: Fraction(c, n) for k, c in Counter(jds).items()}
        got = both(gcmpy.JointDegreeEmpirical, "empirical", {N.JDS: list(jds), N.MOTIF_SIZES: sizes})
        if got is None:
            return res
        if set(got) != set(want) or any(abs(got[k] - float(want[k])) > TOL for k in want):
            res.violate("empirical-frequencies-differ", got=repr(got)[:300], want={k: float(v) for k, v in want.items()}, n=n)
        support, probs = want, set(want.values())
        sample["jds"] = jds[:40]
        # history: new observations on the same loader object
        if res.verdict == "held":
            L = sut("JointDegreeEmpirical(params)", gcmpy.JointDegreeEmpirical, {N.JDS: list(jds), N.MOTIF_SIZES: sizes})
            for _ in range(rng.choice([1, 2])):
                pool2 = [tuple(rng.randrange(0, 5) for _ in range(T)) for _ in range(rng.randint(1, 6))]
                jds2 = [rng.choice(pool2) for _ in range(rng.choice([1, 4, 30]))]
                how = rng.choice(["setter", "in-place-extend", "in-place-assign"])
                if how == "setter":
                    L.empirical_jds = list(jds2)
                else:
                    # the caller's own list, edited in place (the loader holds a reference to it)
                    cur = L.empirical_jds
                    if how == "in-place-extend":
                        cur.extend(jds2)
                    else:
                        for i in range(len(cur)):
                            if rng.random() < 0.5:
                                cur[i] = rng.choice(jds2)
                        cur.append(jds2[0])
                    jds2 = list(cur)
                    res.count("in_place_observation_edits")
                sut("create_jdd (new observations)", L.create_jdd)
                res.count("update_history_checks")
                want2 = {k: c / len(jds2) for k, c in Counter(jds2).items()}
                if not _same(L.jdd, want2):
                    res.violate("empirical-loader-does-not-follow-new-observations", got=repr(L.jdd)[:300], want=want2, history=["construct", "empirical_jds = ...", "create_jdd()"]); break
    elif kind == "function":
        res.count("function")
        bounds = [(lo, lo + rng.randint(0, 7 if T < 3 else 4)) for lo in (rng.randint(0, 3) for _ in range(T))]
        if T == 1 and rng.random() < 0.2:
            bounds = [(rng.choice([0, 1, 250]), rng.choice([300, 400]))]           # degrees beyond 255
        calls = []
        style = rng.choice(["table", "formula", "formula", "intarith"])
        if style == "intarith":
            # a joint function doing exact INTEGER arithmetic on the degrees it is handed (binomial weights comb(n,k) a^k b^(n-k) / (a+b)^n,
            # or the library's own poisson with an int-typed mean, which computes mean**k): the values pass 2**63 inside the box
            bounds = [(rng.choice([0, 1]), rng.randint(40, 58))] + [(0, rng.randint(1, 3)) for _ in range(T - 1)]
            res.count("integer_arithmetic_joint_functions")
        n_, a_ = 60, rng.choice([1, 3])
        pois = gcmpy.poisson(rng.choice([3, 4, 9]))
        which = rng.choice(["binomial", "poisson_int"])
        box = list(product(*[range(a, b + 1) for a, b in bounds]))
        tab = {jd: rng.choice([0.0, 0.125, 0.5, 1.0, 2.0]) for jd in box}

        def formula(jd):
            if style == "intarith":
                k = jd[0]
                v = (math.comb(n_, int(k)) * a_ ** k * 3 ** (n_ - k) / (a_ + 3) ** n_) if which == "binomial" else float(pois(k))
                return v / (1 + sum(jd[1:]))
            return 1.0 / (1.0 + sum(jd) + jd[0] * jd[-1])

        def fp(jd):
            calls.append(tuple(jd))
            if style == "table":
                return tab[tuple(jd)]
            return formula(jd)
        # the joint function is "a callable taking the joint degree tuple": a plain function, one with further defaulted
        # parameters, a callable object, a bound method, a functools.partial
        form = rng.choice(["function", "function", "defaulted-extra-parameter", "two-defaulted-extra-parameters", "callable-object", "bound-method", "partial"])
        res.seen("joint_function_forms", form)
        if form != "function":
            res.count("joint_functions_in_another_callable_form")
        fp_plain = fp
        if form == "defaulted-extra-parameter":
            def fp(jd, rho=0.5):
                return fp_plain(jd)
        elif form == "two-defaulted-extra-parameters":
            def fp(jd, rho=0.5, scale=1.0):
                return fp_plain(jd)
        elif form == "callable-object":
            class _Joint:
                def __call__(self, jd, rho=0.5):
                    return fp_plain(jd)
            fp = _Joint()
        elif form == "bound-method":
            class _Model:
                def joint(self, jd, rho=0.5):
                    return fp_plain(jd)
            fp = _Model().joint
        elif form == "partial":
            import functools

            def _three(jd, rho, scale):
                return fp_plain(jd)
            fp = functools.partial(_three, scale=1.0, rho=0.5)
        got = both(gcmpy.JointDegreeFunction, "function", {N.FP: fp, N.MOTIF_SIZES: sizes, N.LOW_HIGH_DEGREE_BOUND: bounds})
        if got is None:
            return res
        want = {jd: (tab[jd] if style == "table" else formula(jd)) for jd in box}
        res.count("box_points_evaluated", len(set(calls) & set(box)))
        if set(calls) != set(box):
            res.violate("joint-function-not-evaluated-on-the-whole-box", missing=sorted(set(box) - set(calls))[:5],
                        extra=sorted(set(calls) - set(box))[:5], bounds=bounds)
        elif set(got) != set(want) or any(abs(got[k] - want[k]) > TOL for k in want):
            res.violate("function-loader-values-differ", bounds=bounds, got=repr(sorted(got.items()))[:300], want=repr(sorted(want.items()))[:300])
        if any(v < 0 for v in got.values()):
            res.violate("negative-mass")
        support, probs = want, set(want.values())
        sample.update(bounds=bounds, style=style)
    elif kind in ("marginal_direct", "marginal_sampling"):
        res.count(kind)
        sampling = kind == "marginal_sampling"
        width = 4 if sampling else 7
        bounds = [(lo, lo + rng.randint(1, width)) for lo in (rng.randint(0, 3) for _ in range(T))]
        if case.get("bigbox"):
            bounds = [(0, rng.randint(257, 270)), (rng.choice([0, 1]), rng.randint(257, 262))] if T == 2 else [(0, rng.randint(41, 43))] * 3
            res.count("direct_tables_beyond_65536_entries")
        longtail = (not sampling) and not case.get("bigbox") and T <= 2 and rng.random() < 0.2
        if longtail:
            # boxes wide enough that the marginals are ALMOST normalised on them (what the box cuts off lies between 1e-15 and 1e-6):
            # the law is the NORMALISED product all the same
            bounds = [(0, rng.randint(14, 45)) for _ in range(T)]
            res.count("direct_tables_on_almost_normalised_marginals")
        shared = T >= 2 and rng.random() < 0.3
        if shared:
            # hostile but ordinary: the SAME callable object and the same bounds for several topologies (e.g. p = poisson(2.5); [p, p])
            bounds = [bounds[0]] * T
            res.count("shared_marginal_callable")
        calls = [[] for _ in range(T)]
        fps, descr = [], []
        allint = (not sampling) and T >= 2 and rng.random() < 0.2
        if allint:
            # every marginal an unnormalised numpy-integer histogram of one dtype: the product of the weights leaves the integer range
            import numpy as np
            force_dtype["dt"] = np.int64 if T >= 3 else np.int32
            res.count("all_numpy_integer_marginals")
        for i, (lo, hi) in enumerate(bounds):
            if shared and i > 0:
                fps.append(fps[0]); descr.append(descr[0]); continue
            f, d = _marginal(rng, lo, hi, calls[i], force="np-int-histogram" if allint else ("table" if case.get("bigbox") else ("longtail" if longtail else None)))
            fps.append(f); descr.append(d)
        force_dtype.clear()
        params = {N.ARR_FP: fps, N.MOTIF_SIZES: sizes, N.LOW_HIGH_DEGREE_BOUND: bounds}
        sample.update(bounds=bounds, marginals=descr)
        pure = []
        for i, (lo, hi) in enumerate(bounds):
            f, _ = fps[i], None
            pure.append({k: Fraction(float(f(k))) for k in range(lo, hi + 1)})
        if not sampling:
            got = both(gcmpy.JointDegreeMarginal, "marginal", params)
            if got is None:
                return res
            S = [sorted({k[i] for k in got}) for i in range(T)]
            ok = all(isinstance(k, tuple) and len(k) == T for k in got)
            for i, (lo, hi) in enumerate(bounds):
                if not ok or not (set(range(lo, hi)) <= set(S[i]) <= set(range(lo, hi + 1))):
                    res.violate("marginal-support-not-within-bounds", dim=i, support=S[i], bounds=bounds[i]); return res
            if set(got) != set(product(*S)):
                res.violate("marginal-support-not-a-product", got=len(got), want=len(list(product(*S)))); return res
            Z = sum(_prod(pure[i][k[i]] for i in range(T)) for k in product(*S))
            want = {k: _prod(pure[i][k[i]] for i in range(T)) / Z for k in product(*S)}
            bad = [k for k in want if abs(got[k] - float(want[k])) > TOL]
            if bad:
                res.violate("marginal-law-differs-from-normalised-product", key=bad[0], got=got[bad[0]], want=float(want[bad[0]]), bounds=bounds, marginals=descr)
            if abs(sum(got.values()) - 1) > 1e-9 or any(v < 0 for v in got.values()):
                res.violate("marginal-not-a-distribution", total=sum(got.values()))
            support, probs = want, set(want.values())
        else:
            nsamp = 20000
            params[N.USE_SAMPLING] = True
            state = {}

            def draw(n, stage):
                p = dict(params)
                p[N.N_SAMPLES] = n
                tap = RandomTap(seed=case["seed"] * 7 + stage, keep_log=False)
                with installed(tap, "marginal"):
                    if rng.random() < 0.5:
                        obj = sut("JointDegreeMarginal(sampling)", gcmpy.JointDegreeMarginal, p)
                    else:
                        p[N.JOINT_DEGREE_TYPE] = "marginal"
                        obj = sut("load_joint_degree(marginal,sampling)", load, p)
                        res.count("dispatcher_path"); res.seen("dispatcher_types", "marginal")
                state["choices_calls"] = tap.counts["choices"]
                jdd = obj.jdd
                state["jdd"] = jdd
                return {k: int(round(v * n)) for k, v in jdd.items()}
            # expected law over the closed box restricted to what can be drawn: cells of the closed range
            first = draw(nsamp, 0)
            got = state["jdd"]
            if abs(sum(got.values()) - 1) > 1e-9 or any(v < 0 for v in got.values()):
                res.violate("marginal-not-a-distribution", total=sum(got.values())); return res
            S = [sorted({k[i] for k in got}) for i in range(T)]
            for i, (lo, hi) in enumerate(bounds):
                if not (set(range(lo, hi)) <= set(S[i]) <= set(range(lo, hi + 1))):
                    res.violate("marginal-support-not-within-bounds", dim=i, support=S[i], bounds=bounds[i], mode="sampling"); return res
            Z = sum(_prod(pure[i][k[i]] for i in range(T)) for k in product(*S))
            want = {k: float(_prod(pure[i][k[i]] for i in range(T)) / Z) for k in product(*S)}
            ok, info = two_stage(draw, want, nsamp, res)
            res.counters["choices_calls_last"] = state.get("choices_calls", 0)
            if not ok:
                res.violate("sampled-marginal-law-rejected", info=info, bounds=bounds, marginals=descr)
            support, probs = want, set(round(v, 12) for v in want.values())
    else:
        # path-equality clause for the three loaders whose law is decided by C07 / C08
        res.count("dispatch_all")
        tab = {k: rng.choice([0.5, 1.0, 2.0]) for k in range(0, 12)}
        lo = rng.randint(1, 3)
        hi = lo + rng.randint(2, 6)
        w = [rng.random() + 0.1 for _ in range(T)]
        probs_v = [x / sum(w) for x in w]
        p = {N.FP: (lambda k: tab[k]), N.PROBS: probs_v, N.MOTIF_SIZES: list(range(2, T + 2)), N.LOW_HIGH_DEGREE_BOUND: (lo, hi)}
        a = both(gcmpy.JointDegreeSplitDegree, "split_degree", p)
        p2 = dict(p); p2[N.TARGET_K] = rng.randint(lo, hi)
        b = both(gcmpy.JointDegreeDelta, "delta", p2)
        cover = [rng.sample(range(8), rng.choice([2, 3, 4])) for _ in range(6)] + [[i, (i + 1) % 8] for i in range(8)]
        c = both(gcmpy.JointDegreeCover, "cover", {N.COVER: cover})
        if a is None or b is None or c is None:
            return res
        support, probs = a, set(round(v, 12) for v in a.values())
        sample.update(lo=lo, hi=hi, probs=probs_v)
    res.nontrivial = len(support) >= 4 and len(probs) >= 2
    res.digest = digest(sample) if kind not in ("dispatch_all",) else digest([sample, case["seed"]])
    res.sample = sample
    return res


def _prod(it):
    x = Fraction(1)
    for v in it:
        x *= v
    return x


def finalize(counters, sets, tier):
    counters["dispatcher_types_seen"] = len(sets.get("dispatcher_types", ()))
    out = {"dispatcher_types_seen": sorted(sets.get("dispatcher_types", ()))}
    if len(sets.get("dispatcher_types", ())) < 7:
        out["_inconclusive"] = ["dispatcher path exercised for %d of 7 loader types" % len(sets.get("dispatcher_types", ()))]
    return out
