"""C13 - mixing matrices extracted from a network are exact, symmetric and repeatable.

Monitor: get_ejks is wrapped on the class (quiescent-point hook) to snapshot the returned object's
matrices and key lists at every call; call histories of 1..4 extractions per extractor, several
extractors on the same and on different graphs interleaved.  Oracle: reference extractor written
from the definition (loop over edges, both orientations, 1/(2 E_t)).
"""
import copy
import random
from collections import Counter, defaultdict

import networkx as nx

from ..common import Result, sut, digest, tight_stack_call
from ..graphs import build_clean_network, snapshot, same_snapshot, CanonicalEdgesMonitoredGraph

ID = "C13"
RULE = ("annotated simple networks: (a) clean motif networks from the harness builder with 1..3 clique/cycle topologies, 2..4 joint-degree "
        "classes incl. self-paired classes; (b) arbitrary simple graphs (G(n,p), n<=30) with random topology labels and either consistent or "
        "arbitrary annotations (jd[i] >= 1 on incident topologies), incl. a topology with a single edge or none, names with shared prefixes; half of the networks with vertices inserted in shuffled order and/or relabelled to non-contiguous ints; "
        "histories: 1..4 get_ejks() calls per extractor, up to 3 extractors interleaved over 1..2 graphs, plus the overall-degree variant; 20% of the extractors are given only a prefix of the topology names (the excess tuples keep every slot); in 30% of the repeat calls the network is rewired in place (degree-preserving double edge swaps inside one topology) between two extractions; "
        "non-trivial = a history with >= 2 calls on one extractor and >= 2 distinct excess classes; distinct = SHA-1 of the annotated graph + history")
RULE += "; round m: the extractor's public steps used one by one (count_edge_types() once or twice, then get_ejk for one topology) after 30% of the extractions"
ASSUMPTIONS = ["matrix entries compared at 1e-12; an absent key means 0", "the law is stated in terms of the vertex annotation, so arbitrary annotations are in scope"]
HEADLINE = ["histories", "get_ejks_calls", "hook_hits", "matrices_compared", "entries_compared", "repeat_calls", "self_paired_entries", "overall_variant_checks",
            "arbitrary_annotation", "builder_networks", "single_edge_topology", "in_place_rewirings", "scrambled_vertex_order_or_labels", "extractors_with_a_prefix_of_the_names", "overall_variant_hub_graphs", "extractions_aborted_by_injected_fault", "tight_stack_extractions_completed"]
REQUIRED = {t: {"repeat_calls": 50, "hook_hits": 100, "self_paired_entries": 50, "overall_variant_checks": 50, "arbitrary_annotation": 20,
                "builder_networks": 20, "single_edge_topology": 5, "in_place_rewirings": 20, "scrambled_vertex_order_or_labels": 30, "overall_variant_hub_graphs": 10} for t in ("quick", "thorough")}
TOL = 1e-12
NAMESETS = [["2-clique"], ["2-clique", "3-clique"], ["2-clique-blue", "2-clique-red"], ["a", "b", "c"], ["3-clique", "2-clique"],
            ["x-y", "x-y-z"], ["edge", "triangle", "square"], ["t"]]


def gen_cases(tier, seed):
    n = 300 if tier == "quick" else 30000
    cases = [{"seed": seed * 100193 + i} for i in range(n)]
    if tier == "thorough":
        cases.append({"kind": "repo-tests", "seed": seed, "_cost": 500})
    return cases


def make_graph(rng, res):
    from gcmpy import NetworkNames as NN
    if rng.random() < 0.4:
        res.count("builder_networks")
        fams_all = [("2-clique", "clique", 2), ("3-clique", "clique", 3), ("4-cycle", "cycle", 4), ("4-clique", "clique", 4)]
        T = rng.choice([1, 2, 2, 3])
        fams = rng.sample(fams_all, T)
        k = rng.choice([2, 3, 4])
        classes = [tuple(rng.choice([0, 1, 1, 2, 3]) for _ in range(T)) for _ in range(k)]
        if all(sum(c) == 0 for c in classes):
            classes[0] = tuple([1] * T)
        G, info = build_clean_network(rng, rng.randint(8, 60), fams, classes, assort=rng.choice([0.0, 0.5]))
        names = [f[0] for f in fams]
        return G, names, "builder"
    names = list(rng.choice(NAMESETS))
    T = len(names)
    n = rng.randint(2, 30)
    if rng.random() < 0.04:
        n = rng.randint(280, 400)          # more than 255 vertices / edges per topology / degrees
        G = nx.star_graph(n - 1) if rng.random() < 0.5 else nx.gnp_random_graph(n, 0.01, seed=rng.randrange(1 << 30))
    else:
        G = nx.gnp_random_graph(n, rng.choice([0.1, 0.2, 0.4, 0.7]), seed=rng.randrange(1 << 30))
    edges = list(G.edges())
    special = rng.random()
    for idx, (u, v) in enumerate(edges):
        if special < 0.15 and T > 1:
            t = 0 if idx == 0 else rng.randrange(1, T)     # topology 0 has a single edge
        else:
            t = rng.randrange(T)
        G.edges[u, v][NN.TOPOLOGY] = names[t]
        G.edges[u, v][NN.MOTIF_IDS] = idx
    if special < 0.15 and T > 1 and edges:
        res.count("single_edge_topology")
    arbitrary = rng.random() < 0.4
    for v in G.nodes():
        cnt = [0] * T
        for _, w, d in G.edges(v, data=True):
            cnt[names.index(d[NN.TOPOLOGY])] += 1
        if arbitrary:
            cnt = [max(c and 1, rng.choice([c, 1, 2, 3, 300, 70000]) if c else rng.choice([0, 0, 1])) for c in cnt]
        G.nodes[v][NN.JOINT_DEGREE] = tuple(cnt) if rng.random() < 0.8 else list(cnt)
    if arbitrary:
        res.count("arbitrary_annotation")
    return G, names, "arbitrary" if arbitrary else "consistent"


def scramble(rng, G):
    """same annotated network, but vertices inserted in shuffled order and (half of the time) relabelled to non-contiguous ints:
    vertex labels are labels, not positions"""
    relabel = rng.random() < 0.5
    f = (lambda v: 3 * v + 5) if relabel else (lambda v: v)
    # (a quarter of them on a Graph subclass that reports every edge smaller end point first, whichever end it was asked about)
    H = CanonicalEdgesMonitoredGraph() if rng.random() < 0.25 else nx.Graph()
    ns = list(G.nodes(data=True))
    rng.shuffle(ns)
    for v, d in ns:
        H.add_node(f(v), **{})
        H.nodes[f(v)].update(d)
    es = list(G.edges(data=True))
    rng.shuffle(es)
    for u, v, d in es:
        if rng.random() < 0.5:
            u, v = v, u
        H.add_edge(f(u), f(v))
        H.edges[f(u), f(v)].update(d)
    return H


def reference(G, names):
    """from the definition: ordered pair (a,b) -> fraction of topology-t edge ends whose own vertex has excess a, partner b"""
    from gcmpy import NetworkNames as NN
    out = {}
    for i, t in enumerate(names):
        es = [(u, v) for u, v, d in G.edges(data=True) if d[NN.TOPOLOGY] == t]
        m = defaultdict(float)
        for u, v in es:
            a = list(G.nodes[u][NN.JOINT_DEGREE]); a[i] -= 1
            b = list(G.nodes[v][NN.JOINT_DEGREE]); b[i] -= 1
            a, b = tuple(a), tuple(b)
            m[a + b] += 1.0 / (2 * len(es))
            m[b + a] += 1.0 / (2 * len(es))
        out[t] = dict(m)
    return out


def _same_matrices(a, b):
    try:
        return set(a) == set(b) and all(set(a[t]) == set(b[t]) and all(abs(a[t][k] - b[t][k]) <= TOL for k in b[t]) for t in b)
    except Exception:
        return False


def compare_matrix(res, got, want, T, ctx):
    res.count("matrices_compared")
    for k in set(got) | set(want):
        res.count("entries_compared")
        if not (isinstance(k, tuple) and len(k) == 2 * T):
            res.violate("matrix-key-is-not-a-pair-of-excess-tuples", key=repr(k), ctx=ctx); return False
        if abs(got.get(k, 0.0) - want.get(k, 0.0)) > TOL:
            res.violate("matrix-entry-differs-from-definition", key=k, got=got.get(k, 0.0), want=want.get(k, 0.0), ctx=ctx); return False
        if k[:T] == k[T:]:
            res.count("self_paired_entries")
    if want:
        if abs(sum(got.values()) - 1.0) > 1e-9:
            res.violate("matrix-does-not-sum-to-one", total=sum(got.values()), ctx=ctx); return False
        for k, v in got.items():
            if abs(v - got.get(k[T:] + k[:T], 0.0)) > TOL:
                res.violate("matrix-not-symmetric", key=k, ctx=ctx); return False
    return True


_hook = {"installed": False, "hits": 0, "snaps": []}


def install_hook():
    if _hook["installed"]:
        return
    import gcmpy
    cls = gcmpy.JointExcessJointDegree
    orig = cls.get_ejks

    def wrapped(self, *a, **k):
        r = orig(self, *a, **k)
        _hook["hits"] += 1
        try:
            _hook["snaps"].append((id(self), copy.deepcopy(dict(r.ejks)), copy.deepcopy(dict(r.excess_degree_keys))))
        except Exception as e:  # malformed return value: leave it to the boundary oracle
            _hook["snaps"].append((id(self), None, None))
        return r
    cls.get_ejks = wrapped
    _hook["installed"] = True


def run_case(case):
    import gcmpy
    from gcmpy import ToolsNames as TN, NetworkNames as NN
    if case.get("kind") == "repo-tests":
        from ..repotests import run as _run_repo_tests
        res = Result()
        _run_repo_tests(ID, res)
        res.nontrivial = True
        res.digest = "repo-tests"
        res.sample = {"kind": "repo-tests", "notes": res.notes[:2]}
        return res
    install_hook()
    res = Result()
    rng = random.Random(case["seed"])
    graphs = [make_graph(rng, res) for _ in range(rng.choice([1, 1, 2]))]
    for i, (G, names, kind) in enumerate(graphs):
        if rng.random() < 0.5:
            graphs[i] = (scramble(rng, G), names, kind)
            res.count("scrambled_vertex_order_or_labels")
    refs = [reference(G, names) for G, names, _ in graphs]
    snaps = [snapshot(G) for G, _, _ in graphs]
    extractors = []
    caller_lists = {}
    shared = {} if rng.random() < 0.4 else None
    if shared is not None:
        res.count("histories_with_one_parameter_dict_for_all_extractors")
    for _ in range(rng.choice([1, 2, 3])):
        gi = rng.randrange(len(graphs))
        G, names, kind = graphs[gi]
        used = list(names)
        if len(names) >= 2 and rng.random() < 0.2:
            # a caller interested in the leading topologies only: the listed names still line up with the leading joint-degree
            # slots, the vertices' excess tuples keep every slot
            used = list(names[: rng.randint(1, len(names) - 1)])
            res.count("extractors_with_a_prefix_of_the_names")
        names_obj = list(used)      # the caller's own list object: handed to the extractor and, later, to other helpers of the library
        if shared is not None:
            # the caller fills ONE parameter dictionary again and again, one extractor after the other
            shared[TN.NETWORK] = G
            shared[TN.EDGE_NAMES] = names_obj
            ex = sut("JointExcessJointDegree(params dict used before)", gcmpy.JointExcessJointDegree, shared)
        else:
            ex = sut("JointExcessJointDegree(params)", gcmpy.JointExcessJointDegree, {TN.NETWORK: G, TN.EDGE_NAMES: names_obj})
        extractors.append((gi, ex, used))
        caller_lists[len(extractors) - 1] = names_obj
    history = []
    for x, (gi, ex, _used) in enumerate(extractors):
        history += [x] * rng.choice([1, 2, 2, 3, 4])
    rng.shuffle(history)
    res.count("histories")
    calls_per = Counter()
    first = {}
    multi = False
    classes = 0
    _hook["snaps"] = []
    earlier = []
    for x in history:
        gi, ex, used = extractors[x]
        G, names, kind = graphs[gi]
        T = len(names)
        if calls_per[x] >= 1 and rng.random() < 0.3 and G.number_of_edges() >= 2:
            # history: the network object is rewired IN PLACE between two extractions (double edge swaps inside one topology keep
            # every vertex's per-topology degree, so the annotation stays valid); the extractor holds a reference to the network
            # and must answer for the network as it is now
            swapped = 0
            es = list(G.edges(data=True))
            for _ in range(20):
                (a, b, _), (c, d, _) = rng.sample(es, 2)
                if len({a, b, c, d}) < 4 or G.has_edge(a, d) or G.has_edge(c, b) or not (G.has_edge(a, b) and G.has_edge(c, d)):
                    continue
                attrs1, attrs2 = dict(G.edges[a, b]), dict(G.edges[c, d])      # current attributes (the sampled list may be stale)
                if attrs1[NN.TOPOLOGY] != attrs2[NN.TOPOLOGY]:
                    continue
                G.remove_edge(a, b); G.remove_edge(c, d)
                G.add_edge(a, d); G.edges[a, d].update(attrs1)
                G.add_edge(c, b); G.edges[c, b].update(attrs2)
                swapped += 1
            if swapped:
                res.count("in_place_rewirings")
                refs[gi] = reference(G, names)
                snaps[gi] = snapshot(G)
                first = {k: v for k, v in first.items() if extractors[k][0] != gi}
        if rng.random() < 0.12:
            # injected fault: an extraction aborted by RecursionError somewhere inside (tight stack), caught by the caller, who asks again
            st, _ = tight_stack_call(ex.get_ejks, rng.randint(3, 12))
            res.count("extractions_aborted_by_injected_fault" if st == "aborted" else "tight_stack_extractions_completed")
        h0 = _hook["hits"]
        r = sut("get_ejks", ex.get_ejks)
        res.count("get_ejks_calls")
        res.count("hook_hits", _hook["hits"] - h0)
        calls_per[x] += 1
        ctx = {"call_number_on_this_extractor": calls_per[x], "names": names, "names_given_to_the_extractor": used, "graph_kind": kind,
               "edges": [(u, v, d[NN.TOPOLOGY]) for u, v, d in list(G.edges(data=True))[:25]],
               "joint_degrees": [G.nodes[v][NN.JOINT_DEGREE] for v in list(G.nodes())[:25]]}
        ej = sut("ejks", lambda: r.ejks)
        keys = sut("excess_degree_keys", lambda: r.excess_degree_keys)
        # results handed out EARLIER are the caller's: asking again (possibly after the network was edited in place) must not change them
        stale = [(r0, s0) for r0, s0, x0 in earlier if r0 is not r and not _same_matrices(sut("ejks of an earlier result", lambda: r0.ejks), s0)]
        aliased = [(r0, s0) for r0, s0, x0 in earlier if r0 is r and not _same_matrices(ej, s0)]
        if stale or aliased:
            res.violate("an-earlier-result-changed-when-the-extractor-was-asked-again", same_object_handed_out_again=bool(aliased),
                        earlier=repr(sorted((stale or aliased)[0][1].items()))[:300], now=repr(sorted(((stale or aliased)[0][0]).ejks.items()))[:300], ctx=ctx); break
        earlier.append((r, copy.deepcopy(ej), x))
        res.count("earlier_results_rechecked", len(earlier) - 1)
        if rng.random() < 0.3:
            # the pipeline the library's own rewiring test runs: matrices -> excess distributions -> joint degree distribution, with
            # the caller's ONE list of topology names handed to every step; the extractor must not care what the other helpers do with it
            try:
                qk = gcmpy.JointExcessFromEjk.get_excess_joint_distributions(r)
                gcmpy.JointDegreeFromExcess.get_joint_degree_distribution(qk, caller_lists[x])
                res.count("pipeline_steps_given_the_caller's_names_list")
            except Exception:
                res.count("pipeline_steps_that_raised")
            if list(caller_lists[x]) != list(used):
                # not this property's business by itself; what the next extractions return is (they are compared as always)
                res.count("caller's_names_list_was_reordered_by_another_helper")
        if not isinstance(ej, dict) or set(ej) != set(used):
            res.violate("matrices-not-keyed-by-the-topology-names", got=repr(list(ej))[:200] if isinstance(ej, dict) else repr(ej)[:100], ctx=ctx); break
        ok = True
        for t in used:
            if not compare_matrix(res, ej[t], refs[gi][t], T, dict(ctx, topology=t)):
                ok = False; break
            halves = {k[:T] for k in ej[t]} | {k[T:] for k in ej[t]}
            classes = max(classes, len(halves))
            if not halves <= set(map(tuple, keys.get(t, []))):
                res.violate("excess-keys-do-not-cover-the-matrix", topology=t, missing=sorted(halves - set(map(tuple, keys.get(t, []))))[:4], ctx=ctx)
                ok = False; break
            # row sums equal the excess distribution of that topology (ends whose own vertex has excess a)
            rows = defaultdict(float)
            for k, v in ej[t].items():
                rows[k[:T]] += v
            ends = defaultdict(float)
            es = [(u, v) for u, v, d in G.edges(data=True) if d[NN.TOPOLOGY] == t]
            i = names.index(t)
            for u, v in es:
                for w in (u, v):
                    a = list(G.nodes[w][NN.JOINT_DEGREE]); a[i] -= 1
                    ends[tuple(a)] += 1.0 / (2 * len(es))
            if any(abs(rows.get(a, 0) - ends.get(a, 0)) > 1e-9 for a in set(rows) | set(ends)):
                res.violate("row-sums-differ-from-excess-distribution", topology=t, ctx=ctx); ok = False; break
        if not ok:
            break
        if rng.random() < 0.3 and hasattr(ex, "count_edge_types") and hasattr(ex, "get_ejk"):
            # the extractor's public steps used one by one, as get_ejks() itself uses them: count the edges per topology (once or twice - a
            # caller who is not sure it has been done does it again), then ask for ONE topology's matrix
            t = rng.choice(used)
            try:
                for _ in range(rng.choice([1, 2, 2])):
                    ex.count_edge_types()
                one = ex.get_ejk(used.index(t), t)
            except Exception:      # noqa: BLE001 - the steps are a convenience, not every implementation has to offer them in this form
                res.count("step_by_step_calls_that_raised")
                one = None
            if isinstance(one, dict):
                res.count("single_topology_matrices_obtained_step_by_step")
                if not compare_matrix(res, one, refs[gi][t], T, dict(ctx, topology=t, obtained="count_edge_types() then get_ejk()")):
                    break
        snap_now = (copy.deepcopy(ej), {t: sorted(map(tuple, v)) for t, v in keys.items()})
        if x in first:
            res.count("repeat_calls")
            multi = True
            if snap_now[1] != first[x][1]:
                res.violate("key-lists-changed-between-calls", ctx=ctx); break
        else:
            first[x] = snap_now
    # the hook saw what the boundary saw
    if res.verdict == "held":
        for G, _, _ in graphs:
            pass
        for (G, names, kind), s0 in zip(graphs, snaps):
            if not same_snapshot(s0, snapshot(G)):
                res.violate("extraction-mutated-the-network", names=names); break
    # overall-degree variant
    if res.verdict == "held":
        extra = []
        if rng.random() < 0.15:
            # scale: adjacent vertices of EQUAL degree beyond 256 (two hubs joined by an edge, a clique of hubs)
            d = rng.choice([257, 258, 259, 300, 400, 1000])
            h = rng.choice([2, 2, 3])
            B = nx.complete_graph(h)
            nxt = h
            for hub in range(h):
                for _ in range(d - (h - 1)):
                    B.add_edge(hub, nxt); nxt += 1
            extra.append((B, ["-"], "hubs-of-equal-degree-%d" % d))
            res.count("overall_variant_hub_graphs")
        for G, names, kind in graphs + extra:
            if G.number_of_edges() == 0:
                continue
            got = sut("JointExcessDegree.get_ejk", gcmpy.JointExcessDegree.get_ejk, G)
            want = defaultdict(float)
            E = G.number_of_edges()
            for u, v in G.edges():
                a, b = G.degree(u) - 1, G.degree(v) - 1
                want[(a, b)] += 0.5 / E
                want[(b, a)] += 0.5 / E
            res.count("overall_variant_checks")
            if set(got) != set(want) or any(abs(got[k] - want[k]) > TOL for k in want):
                res.violate("overall-degree-matrix-differs", got=repr(sorted(got.items()))[:300], want=repr(sorted(want.items()))[:300]); break
            got2 = sut("JointExcessDegree.get_ejk (again)", gcmpy.JointExcessDegree.get_ejk, G)
            if got2 != got:
                res.violate("overall-degree-matrix-not-repeatable"); break
    res.nontrivial = multi and classes >= 2
    G, names, kind = graphs[0]
    res.sample = {"graphs": [{"kind": k, "names": n, "n": g.number_of_nodes(), "m": g.number_of_edges()} for g, n, k in graphs],
                  "history": history, "first_graph_edges": [(u, v, d[NN.TOPOLOGY]) for u, v, d in list(G.edges(data=True))[:20]],
                  "first_graph_jds": [G.nodes[v][NN.JOINT_DEGREE] for v in list(G.nodes())[:20]]}
    res.digest = digest([[(sorted((u, v)), d[NN.TOPOLOGY]) for u, v, d in g.edges(data=True)] + [g.nodes[v][NN.JOINT_DEGREE] for v in g.nodes()] for g, _, _ in graphs] + [history])
    return res
