"""C09 - EECC returns an edge-disjoint edge clique cover within the size bound.

Monitor: the harness keeps its own copy of the input edges; RandomTap on eecc.choice logs every
tie-break (number of candidates, index chosen) and enforces the logical progress bound (more than |E|
tie-breaks = no progress); return value and has_edges() afterwards.  Schedules: first / last / seeds,
and - for graphs whose tie-break tree has <= 64 leaves - EVERY tie-break sequence (DFS over the tree:
run with a prefix script, read the candidate counts from the log, extend).
Oracle: exact-cover count over unordered pairs, clique test on the harness copy, intact-clique rule
from nx.find_cliques of the harness copy.
"""
import random
from collections import Counter
from itertools import combinations

import networkx as nx

from ..common import Result, sut, digest, MonitorAlarm
from ..taps import RandomTap, installed
from ..graphfam import random_graph, atlas, atlas_graph

ID = "C09"
RULE = ("simple graphs without isolated vertices: atlas graphs with <= 6 vertices (quick: sampled; thorough: all of them for every m0), G(n,p) "
        "n <= 12 (thorough <= 16) with p in {.2,.35,.5,.7,.9}, planted structures (chains of K_k sharing an edge, K_k u K_k sharing K_{k-1}, "
        "wheels, K_n n<=8, books, rings of K4), and every 4th (quick) / 10th (thorough) case a large sparse graph (union of 8..24 mostly edge-disjoint cliques plus an "
        "overlapping cluster, 20..70 vertices, or G(n,p) with n<=40, p<=.15); m0 in 2..omega+1; the bound is set before, after, or between the edge insertions, or twice, or changed after a read-only look at the candidate list, or the object is reused after a first cover; schedules first/last/3 seeds + exhaustive tie-break trees up to 64 leaves; "
        "non-trivial = a maximal clique larger than m0 overlapping another one, or >= 1 tie-break with >= 2 candidates; distinct = SHA-1 of (graph, m0)")
RULE += ("; rounds k-l added: " + '20% of the small graphs on unusual numeric labels: signed ints (-1 and -2 share a hash), multiples of 2**61-1 (all hash to 0), numpy float64 half-integers')
RULE += '; round n: one graph of two cliques on 145..210 vertices sharing exactly one edge per quick run (bound at or above their order)'
ASSUMPTIONS = ["vertices are ints; order of the returned list and of vertices inside a clique is ignored",
               "progress bound: each greedy step must cover a new edge, so more than |E| tie-break calls is a violation"]
HEADLINE = ["pairs", "runs", "edges_covered_exactly_once", "tie_breaks", "tie_breaks_multi", "exhaustive_trees", "tree_leaves", "trees_truncated",
            "larger_than_m0", "intact_rule_applied", "greedy_steps", "m0_2", "m0_ge_omega", "large_sparse_graphs", "build_bound-then-edges", "build_interleaved", "build_bound-twice", "build_peek-then-rebound", "build_reuse"]
REQUIRED = {t: {"runs": 1000, "larger_than_m0": 30, "intact_rule_applied": 30, "greedy_steps": 100, "tie_breaks_multi": 50,
                "exhaustive_trees": 50, "m0_2": 20, "m0_ge_omega": 20, "large_sparse_graphs": 10, "build_bound-then-edges": 50, "build_interleaved": 50, "build_bound-twice": 50, "build_peek-then-rebound": 50, "build_reuse": 50} for t in ("quick", "thorough")}
SHARD_TIMEOUT = {"quick": 600, "thorough": 7200}
LEAF_CAP = 64


def gen_cases(tier, seed):
    cases = []
    if tier == "quick":
        for i in range(300):
            cases.append({"seed": seed * 100267 + i, "nmax": 11, "large": 1.0 if i % 4 == 0 else 0.0, "_cost": 6 if i % 4 == 0 else 1})
        cases.append({"seed": seed * 100267 + 970000, "bigcliques": True, "_cost": 300})
    else:
        for i in range(6000):
            cases.append({"seed": seed * 100267 + i, "nmax": 16 if i % 5 == 0 else 12, "large": 1.0 if i % 10 == 3 else 0.0,
                          "_cost": 8 if i % 10 == 3 else 4 if i % 5 == 0 else 1})
        for a in atlas(6):
            cases.append({"atlas": a, "seed": seed})
        for i in range(3):
            cases.append({"seed": seed * 100267 + 970000 + i, "bigcliques": True, "_cost": 600})
        cases.append({"kind": "repo-tests", "seed": seed, "_cost": 100})
    return cases


def one_run(res, edges, m0, tap, ctx):
    import gcmpy
    E = {frozenset(e) for e in edges}
    adj = nx.Graph(list(edges))
    n0 = len(tap.log)
    e = sut("EECC()", gcmpy.EECC)
    # the graph is "built from edges" and the bound set through the public interface - in any order of those calls
    es_list = [tuple(x) for x in edges]
    if ctx.get("bound_type") == "numpy":
        import numpy as np
        m0 = np.int64(m0)
        res.count("bounds_given_as_numpy_integers")
    container = ctx.get("edge_container", "list")
    if container != "list":
        res.count("edges_given_as_" + container)

    # the edges are handed over the way a caller may: a list, a tuple, a dict view, or a fresh one-shot iterable per call
    def wrap(lst):
        if container == "tuple":
            return tuple(lst)
        if container == "generator":
            return (x for x in lst)
        if container == "iterator":
            return iter(list(lst))
        if container == "zip":
            return zip([a for a, _ in lst], [b for _, b in lst])
        if container == "dict-keys":
            return dict.fromkeys(lst).keys()
        return list(lst)
    order = ctx.get("build_order", "edges-then-bound")
    res.count("build_" + order)
    if order == "edges-then-bound":
        sut("add_edges_from", e.add_edges_from, wrap(es_list))
        sut("set_max_clique_size", e.set_max_clique_size, m0)
    elif order == "bound-then-edges":
        sut("set_max_clique_size", e.set_max_clique_size, m0)
        sut("add_edges_from", e.add_edges_from, wrap(es_list))
    elif order == "interleaved":
        k = max(1, len(es_list) // 3)
        for x in es_list[:k]:
            sut("add_edge", e.add_edge, x)
        sut("set_max_clique_size", e.set_max_clique_size, m0)
        sut("add_edges_from", e.add_edges_from, wrap(es_list[k:]))
    elif order == "bound-twice":   # a provisional bound first, the real one last
        sut("set_max_clique_size", e.set_max_clique_size, 2 if m0 != 2 else 5)
        sut("add_edges_from", e.add_edges_from, wrap(es_list))
        sut("set_max_clique_size", e.set_max_clique_size, m0)
    elif order == "peek-then-rebound":
        # history on one object: the candidate list is inspected under a provisional (larger) bound, then the bound is changed
        sut("add_edges_from", e.add_edges_from, wrap(es_list))
        sut("set_max_clique_size", e.set_max_clique_size, m0 + 1)
        sut("limited_maximal_cliques (read-only peek)", e.limited_maximal_cliques)
        sut("set_max_clique_size", e.set_max_clique_size, m0)
    elif order == "assign-graph-to-a-used-object":
        # history: the object first covers ANOTHER graph (a triangle with a tail, built from edges), then the caller hands it the graph
        # of this case as a networkx object through the public G setter
        sut("add_edges_from (first, other graph)", e.add_edges_from, [(-1, -2), (-2, -3), (-1, -3), (-3, -4)])
        sut("set_max_clique_size", e.set_max_clique_size, 3)
        with installed(RandomTap(seed=5, keep_log=False), "eecc"):
            sut("get_EECC (first use of the object, other graph)", e.get_EECC)
        g2 = nx.Graph()
        g2.add_edges_from(es_list)

        def _assign():
            e.G = g2
        sut("G setter", _assign)
        sut("set_max_clique_size", e.set_max_clique_size, m0)
    else:   # "reuse": the object has already produced a cover of the same graph under another bound; the edges are put back
        sut("add_edges_from", e.add_edges_from, wrap(es_list))
        sut("set_max_clique_size", e.set_max_clique_size, m0 + 2 if m0 < 4 else 2)
        with installed(RandomTap(seed=5, keep_log=False), "eecc"):
            sut("get_EECC (first use of the object)", e.get_EECC)
        sut("add_edges_from (again)", e.add_edges_from, wrap(es_list))
        sut("set_max_clique_size", e.set_max_clique_size, m0)
    with installed(tap, "eecc"):
        cover = sut("get_EECC", e.get_EECC)
    res.count("runs")
    ties = [(ev[1], ev[2]) for ev in tap.log[n0:] if ev[0] == "choice"]
    res.count("tie_breaks", len(ties))
    res.count("tie_breaks_multi", sum(1 for n, _ in ties if n >= 2))
    res.count("greedy_steps", len(ties))
    ctx = dict(ctx, tie_breaks=ties[:20])
    if not isinstance(cover, (list, tuple)):
        res.violate("cover-is-not-a-list", got=repr(cover)[:200], ctx=ctx); return None
    seen = Counter()
    cl = []
    for c in cover:
        try:
            vs = list(c)
        except TypeError:
            res.violate("cover-element-is-not-a-vertex-collection", element=repr(c), ctx=ctx); return None
        if len(set(vs)) != len(vs) or not (2 <= len(vs) <= m0):
            res.violate("cover-element-size-outside-2..m0-or-repeated-vertex", element=vs, m0=m0, ctx=ctx); return None
        for a, b in combinations(vs, 2):
            if not adj.has_edge(a, b):
                res.violate("cover-element-is-not-a-clique-of-the-input", element=vs, missing_edge=(a, b), ctx=ctx); return None
            seen[frozenset((a, b))] += 1
        cl.append(frozenset(vs))
    twice = [sorted(p) for p, c in seen.items() if c > 1]
    unc = [sorted(p) for p in E if p not in seen]
    if twice:
        res.violate("edge-covered-twice", edges=twice[:5], cover=[sorted(c) for c in cl], ctx=ctx); return None
    if unc:
        res.violate("edge-not-covered", edges=unc[:5], cover=[sorted(c) for c in cl], ctx=ctx); return None
    res.count("edges_covered_exactly_once", len(E))
    if sut("has_edges", e.has_edges):
        res.violate("working-graph-still-has-edges", ctx=ctx); return None
    return cl, ties


def run_case(case):
    if case.get("kind") == "repo-tests":
        from ..repotests import run as _run_repo_tests
        res = Result()
        _run_repo_tests(ID, res)
        res.nontrivial = True
        res.digest = "repo-tests"
        res.sample = {"kind": "repo-tests", "notes": res.notes[:2]}
        return res
    res = Result()
    rng = random.Random(case["seed"] if "atlas" not in case else case["atlas"] * 7 + case["seed"])
    if "atlas" in case:
        g = atlas_graph(case["atlas"])
        d = "atlas#%d" % case["atlas"]
        g = nx.Graph([tuple(sorted(e)) for e in g.edges()])
    elif case.get("bigcliques"):
        # scale in the ORDER of the cliques: two cliques on 145..210 vertices each that share exactly one edge (a score of one shared edge
        # out of ten or twenty thousand is still a score), bound at or above their order
        n = rng.randint(145, 210)
        a = list(range(n))
        b = [0, 1] + list(range(n, 2 * n - 2))
        g = nx.Graph()
        g.add_edges_from(combinations(a, 2))
        g.add_edges_from(combinations(b, 2))
        d = "two %d-cliques sharing one edge" % n
        res.count("graphs_of_two_large_cliques_sharing_one_edge")
    else:
        d, g = random_graph(rng, nmax=case.get("nmax", 11), large=case.get("large", 0.0))
        if g.number_of_nodes() > 16:
            res.count("large_sparse_graphs")
        elif rng.random() < 0.2:
            from ..graphs import odd_numeric_labels
            lk, g = odd_numeric_labels(rng, g, res)
            d += "+labels:" + lk
    edges = [tuple(e) for e in g.edges()]
    maxc = [frozenset(c) for c in nx.find_cliques(g)]
    omega = max(len(c) for c in maxc)
    m0s = list(range(2, omega + 2)) if "atlas" in case else sorted({2, rng.randint(2, omega + 1), rng.choice([omega, omega + 1, max(2, omega - 1)])})
    if g.number_of_nodes() > 16:
        m0s = sorted(set(rng.sample([2, 3, 4, 5, 6], 2)) | {rng.choice([4, 5])})
    if case.get("bigcliques"):
        m0s = [omega + rng.choice([0, 0, 40])]
    any_nt = False
    for m0 in m0s:
        res.count("pairs")
        if m0 == 2:
            res.count("m0_2")
        if m0 >= omega:
            res.count("m0_ge_omega")
        base = {"graph": d, "edges": sorted(edges), "m0": m0}
        # intact-clique rule from the harness copy
        def edges_of(c):
            return {frozenset(p) for p in combinations(sorted(c), 2)}
        intact = [c for c in maxc if len(c) <= m0 and len(c) >= 2 and not any(edges_of(c) & edges_of(o) for o in maxc if o != c)]
        if intact:
            res.count("intact_rule_applied")
        if any(len(c) > m0 for c in maxc):
            res.count("larger_than_m0")
        nE = len(edges)

        def guard(tap, kind):
            if kind == "choice" and tap.counts["choice"] > nE:
                raise MonitorAlarm("no-progress:more-tie-breaks-than-edges", tie_breaks=tap.counts["choice"], edges=nE, **base)
        scheds = [("preset", "first"), ("preset", "last"), ("seed", 1), ("seed", 2), ("seed", 3)]
        ok = True
        multi = False
        for kind, val in scheds:
            tap = RandomTap(seed=val if kind == "seed" else 0, preset={"choice": val} if kind == "preset" else None, on_event=guard)
            r = one_run(res, edges, m0, tap, dict(base, schedule=[kind, val],
                                                   build_order=rng.choice(["edges-then-bound", "edges-then-bound", "bound-then-edges", "interleaved", "bound-twice", "peek-then-rebound", "reuse", "assign-graph-to-a-used-object"]),
                                                   edge_container=rng.choice(["list", "list", "list", "tuple", "generator", "iterator", "zip", "dict-keys"]),
                                                   bound_type=rng.choice(["int", "int", "int", "numpy"])))
            if r is None:
                ok = False; break
            cl, ties = r
            multi |= any(n >= 2 for n, _ in ties)
            missing = [sorted(c) for c in intact if c not in cl]
            if missing:
                res.violate("isolated-maximal-clique-not-returned-intact", cliques=missing, cover=[sorted(c) for c in cl], ctx=dict(base, schedule=[kind, val]))
                ok = False; break
        if not ok:
            break
        # exhaustive tie-break tree
        if multi:
            leaves = 0
            stack = [[]]
            truncated = False
            while stack:
                prefix = stack.pop()
                tap = RandomTap(script={"choice": list(prefix)}, preset={"choice": "first"}, on_event=guard)
                r = one_run(res, edges, m0, tap, dict(base, schedule=["prefix", prefix]))
                if r is None:
                    ok = False; break
                cl, ties = r
                leaves += 1
                missing = [sorted(c) for c in intact if c not in cl]
                if missing:
                    res.violate("isolated-maximal-clique-not-returned-intact", cliques=missing, ctx=dict(base, schedule=["prefix", prefix]))
                    ok = False; break
                full = [i for _, i in ties]
                for j in range(len(prefix), len(ties)):
                    for k in range(1, ties[j][0]):
                        stack.append(full[:j] + [k])
                if leaves + len(stack) > LEAF_CAP:
                    truncated = True
                    stack = stack[:max(0, LEAF_CAP - leaves)]
            if not ok:
                break
            res.count("tree_leaves", leaves)
            if truncated:
                res.count("trees_truncated")
            else:
                res.count("exhaustive_trees")
        else:
            res.count("exhaustive_trees")   # no branching at all: the single path is the whole tree
            res.count("tree_leaves", 1)
        over = [c for c in maxc if len(c) > m0]
        if multi or any(edges_of(a) & edges_of(b) for a in over for b in maxc if a != b):
            any_nt = True
    res.nontrivial = any_nt
    res.sample = {"graph": d, "edges": sorted(edges), "m0s": m0s, "omega": omega}
    res.digest = digest([sorted(edges), m0s])
    return res
