"""C17 - message passing returns the fixed point of the motif-cover equations.

Monitor: return values of theoretical(phi) over query histories on one object (random / ascending /
descending phi with repeats) against fresh objects; the internal message table `_H_tau` is read after
queries (hasattr-guarded) for a residual check.  Oracle: an independent fixed-point solver
(Gauss-Seidel over (motif, member) from the uniform 0.5 start) in which each motif contributes its exact
bond-percolation expectation computed from a brute-force count table (exactpoly.percolation_counts);
equality is asserted only at phi where that reference converges within 20 sweeps.
"""
import itertools
import math
import random

import networkx as nx

from ..common import Result, sut, digest, tight_stack_call
from ..exactpoly import percolation_counts, percolation_value

ID = "C17"
RULE = ("harness-built cover-labelled networks: N 8..16 vertices, 5..12 motifs from {edge, triangle, 4-cycle, chorded 4-cycle, K4, 5-cycle, house, chorded 6-cycle, bow-tie, tadpole, 6-cycle, chorded 4-cycle with a tail, 3-star}, "
        "motifs pairwise sharing <= 1 vertex, with cycles in the motif hypergraph (10% tree-like controls); phi grid of 11 (quick) / 21 (thorough) "
        "points + random; iterations in {1,2,3,5,25,60}; histories of 10..40 queries per object in random, ascending and descending phi order with "
        "repeats; every case then evaluates a SECOND network (same motif ids and vertex labelling, other shapes) with a new object in the same process; non-trivial = giant-component fraction > 1e-3 at some fast-convergence phi; distinct = SHA-1 of the labelled network")
RULE += ("; rounds k-l added: " + 'island components on vertices of their own in 40% of the networks: closed ones without a degree-1 vertex (triangle, 4-cycle, K4, two triangles sharing a vertex) next to open ones (single edge, tadpole)')
RULE += '; round n: two nearly coincident phi values (relative offset 3e-9 .. 4e-7) in every query history, each compared with a fresh object'
ASSUMPTIONS = ["equality with the reference fixed point is asserted only at phi where the reference converges to 1e-13 within 20 sweeps under four different in-place update orders (forward, reverse, two random) and all four agree (fast, order-independent points), at 1e-6; where the equations have several fixed points the property does not say which update order selects 'the' fixed point",
               "label format f'{k}-{vertices}-{edges}-{id}' as the mixin parses it; vertex ids are non-negative ints",
               "`_H_tau` residual check is auxiliary (hasattr-guarded)"]
HEADLINE = ["networks", "queries", "fixed_point_equalities", "nontrivial_equalities", "slow_points_skipped", "order_dependent_points_skipped", "monotonicity_pairs", "bounds_checks",
            "reuse_vs_fresh_checks", "residual_checks", "loopy_networks", "treelike_controls", "second_networks", "second_network_equalities", "relabelled_in_place_networks", "relabelled_network_equalities", "queries_aborted_by_injected_fault", "tight_stack_queries_completed"]
REQUIRED = {"quick": {"fixed_point_equalities": 20, "nontrivial_equalities": 5, "monotonicity_pairs": 100, "reuse_vs_fresh_checks": 30, "loopy_networks": 5, "second_network_equalities": 10, "relabelled_network_equalities": 6},
            "thorough": {"fixed_point_equalities": 500, "nontrivial_equalities": 100, "monotonicity_pairs": 3000, "reuse_vs_fresh_checks": 800, "loopy_networks": 100, "second_network_equalities": 200, "relabelled_network_equalities": 100}}
SHARD_TIMEOUT = {"quick": 900, "thorough": 10800}
SHAPES = [[(0, 1)], [(0, 1), (1, 2), (0, 2)], [(0, 1), (1, 2), (2, 3), (3, 0)], [(0, 1), (1, 2), (2, 3), (3, 0), (0, 2)],
          list(itertools.combinations(range(4), 2)), [(0, 1), (1, 2), (2, 3), (3, 4), (4, 0)],
          # chorded and composite motifs: chorded 5-cycle (house), chorded 6-cycle, bow-tie, tadpole, 6-cycle, K4 minus an edge with a tail
          [(0, 1), (1, 2), (2, 3), (3, 4), (4, 0), (0, 2)], [(0, 1), (1, 2), (2, 3), (3, 4), (4, 5), (5, 0), (0, 3)],
          [(0, 1), (1, 2), (0, 2), (0, 3), (3, 4), (0, 4)], [(0, 1), (1, 2), (0, 2), (2, 3)], [(0, 1), (1, 2), (2, 3), (3, 4), (4, 5), (5, 0)],
          [(0, 1), (1, 2), (2, 3), (3, 0), (0, 2), (3, 4)], [(0, 1), (1, 2), (1, 3)]]


def gen_cases(tier, seed):
    n = 14 if tier == "quick" else 300
    return [{"seed": seed * 100313 + i, "grid": 11 if tier == "quick" else 21, "_cost": 1} for i in range(n)]


def build(rng, treelike, like=None):
    """like: (ids, relabelled) of an earlier network of this process - the new one then uses the same motif ids and the same
    vertex labelling for other shapes on other vertex sets"""
    N = rng.randint(8, 16)
    nm = rng.randint(5, 12)
    G = nx.Graph()
    G.add_nodes_from(range(N))
    motifs = []
    tries = 0
    if treelike:
        nxt = 0
        for m in range(nm):
            sh = rng.choice(SHAPES)
            k = 1 + max(itertools.chain(*sh))
            vs = [rng.randrange(nxt)] if nxt else []
            while len(vs) < k:
                vs.append(nxt); nxt += 1
            rng.shuffle(vs)
            motifs.append((sorted(vs), [(vs[a], vs[b]) for a, b in sh]))
        G = nx.Graph(); G.add_nodes_from(range(nxt))
    else:
        while len(motifs) < nm and tries < 2000:
            tries += 1
            sh = rng.choice(SHAPES)
            k = 1 + max(itertools.chain(*sh))
            vs = rng.sample(range(N), k)
            if any(len(set(vs) & set(m[0])) > 1 for m in motifs):
                continue
            motifs.append((sorted(vs), [(vs[a], vs[b]) for a, b in sh]))
    if rng.random() < 0.4:
        # islands: further components on vertices of their own - closed ones without any vertex of degree one (a triangle, a 4-cycle, K4, two
        # triangles sharing a vertex) next to open ones (a single edge, a tadpole): a network need not be connected, and whether a component
        # has leaves says nothing about the others
        base = G.number_of_nodes()
        for isl in rng.sample(["closed", "closed", "open", "closed2"], rng.randint(1, 3)):
            if isl == "closed":
                sh = rng.choice([SHAPES[1], SHAPES[2], SHAPES[4]])
                k = 1 + max(itertools.chain(*sh))
                vs = list(range(base, base + k)); base += k
                motifs.append((sorted(vs), [(vs[a], vs[b]) for a, b in sh]))
            elif isl == "closed2":
                vs = list(range(base, base + 5)); base += 5
                motifs.append((sorted(vs[:3]), [(vs[0], vs[1]), (vs[1], vs[2]), (vs[0], vs[2])]))
                motifs.append((sorted(vs[2:]), [(vs[2], vs[3]), (vs[3], vs[4]), (vs[2], vs[4])]))
            else:
                sh = rng.choice([SHAPES[0], SHAPES[9]])
                k = 1 + max(itertools.chain(*sh))
                vs = list(range(base, base + k)); base += k
                motifs.append((sorted(vs), [(vs[a], vs[b]) for a, b in sh]))
        G.add_nodes_from(range(base))
        build.islands = getattr(build, "islands", 0) + 1
    ids = rng.sample(range(100), len(motifs))
    if rng.random() < 0.2:
        # motif ids are arbitrary integers: 64-bit ids that differ only in their low bits (time-stamp << 22 | sequence number)
        stamp = rng.randrange(1 << 40, 1 << 41) << 22
        ids = [stamp | i for i in ids]
    relabel = rng.random() < 0.5
    if like is not None:
        ids = (list(like[0]) + [i for i in ids if i not in like[0]])[: len(motifs)]
        relabel = like[1]
    build.last = (ids, relabel)
    if relabel:
        # relabel to non-contiguous ids and insert the vertices in shuffled order (labels are not positions)
        f = {v: 3 * v + 2 for v in G.nodes()}
        ns = list(G.nodes()); rng.shuffle(ns)
        G = nx.Graph(); G.add_nodes_from(f[v] for v in ns)
        motifs = [(sorted(f[v] for v in vs), [(f[a], f[b]) for a, b in es]) for vs, es in motifs]
    for (vs, es), mid in zip(motifs, ids):
        lab = f"{len(vs)}-{vs}-{es}-{mid}"
        for a, b in es:
            G.add_edge(a, b, CoverLabel=lab)
    # is the motif hypergraph loopy?  (bipartite vertex-motif incidence graph has a cycle)
    B = nx.Graph()
    for m, (vs, es) in enumerate(motifs):
        for v in vs:
            B.add_edge(("m", m), ("v", v))
    loopy = B.number_of_edges() >= B.number_of_nodes() - nx.number_connected_components(B) + 1
    return G, motifs, loopy


class Reference:
    def __init__(self, G, motifs):
        self.G, self.motifs = G, motifs
        self.memb = {}
        for m, (vs, es) in enumerate(motifs):
            for v in vs:
                self.memb.setdefault(v, []).append(m)
        self.tables = {}
        for m, (vs, es) in enumerate(motifs):
            for v in vs:
                self.tables[(v, m)] = percolation_counts(vs, es, v)

    def step(self, H, m, v, phi):
        vs, es = self.motifs[m]
        u = {j: math.prod(H[(j, mm)] for mm in self.memb[j] if mm != m) for j in vs if j != v}
        counts, ne = self.tables[(v, m)]
        return percolation_value(counts, ne, v, phi, u)

    def solve(self, phi, max_sweeps=400, tol=1e-13, order=None):
        H = {(v, m): 0.5 for m, (vs, es) in enumerate(self.motifs) for v in vs}
        seq = order or [(m, v) for m, (vs, es) in enumerate(self.motifs) for v in vs]
        for it in range(1, max_sweeps + 1):
            d = 0.0
            for m, v in seq:
                new = self.step(H, m, v, phi)
                d = max(d, abs(new - H[(v, m)]))
                H[(v, m)] = new
            if d < tol:
                break
        S = 1 - sum(math.prod(H[(v, m)] for m in self.memb.get(v, [])) for v in self.G.nodes()) / self.G.order()
        return S, it, H

    def solve_order_independent(self, phi, rng, max_sweeps=21):
        """The property speaks of THE fixed point reached from the uniform 0.5 start.  Where the equations have several fixed
        points (typically at phi = 1) which one is reached depends on the order of the in-place updates, which the property does
        not fix; equality with the implementation is therefore asserted only where forward, reverse and two random update orders
        all converge fast and agree."""
        base = [(m, v) for m, (vs, es) in enumerate(self.motifs) for v in vs]
        orders = [base, base[::-1]]
        for _ in range(2):
            o = list(base)
            rng.shuffle(o)
            orders.append(o)
        vals = []
        for o in orders:
            S, it, H = self.solve(phi, max_sweeps=max_sweeps, order=o)
            if it > max_sweeps - 1:
                return None, "slow"
            vals.append(S)
        if max(vals) - min(vals) > 1e-9:
            return None, "order-dependent"
        return vals[0], "ok"


def run_case(case):
    import gcmpy
    res = Result()
    rng = random.Random(case["seed"])
    treelike = rng.random() < 0.1
    G, motifs, loopy = build(rng, treelike)
    like = build.last
    frozen = rng.random() < 0.2
    res.count("networks")
    res.count("loopy_networks" if loopy else "treelike_controls")
    ref = Reference(G, motifs)
    ids = {}
    for (vs, es) in motifs:
        pass
    grid = [i / (case["grid"] - 1) for i in range(case["grid"])]
    ctx = {"motifs": [(vs, es) for vs, es in motifs], "n": G.order()}
    fast = {}
    orng = random.Random(case["seed"] + 17)
    for phi in grid:
        S, why = ref.solve_order_independent(phi, orng)
        if why == "ok":
            fast[phi] = S
        elif why == "slow":
            res.count("slow_points_skipped")
        else:
            res.count("order_dependent_points_skipped")
    # (1) equality at fast points, object with many iterations
    if frozen:
        nx.freeze(G)                  # message passing only reads the cover: a frozen graph is as good as any
        res.count("frozen_input_graphs")
    MP = sut("MessagePassing(G, iterations=40)", gcmpy.MessagePassing, G, iterations=40)
    nt = False
    vals60 = {}
    pts = list(fast)
    rng.shuffle(pts)
    pts = pts[:4] if case["grid"] == 11 else pts[:10]
    for phi in sorted(set(pts) | {0.0, 1.0}):
        a = sut("theoretical", MP.theoretical, phi)
        res.count("queries")
        vals60[phi] = a
        res.count("bounds_checks")
        if not (-1e-12 <= a <= 1 + 1e-12):
            res.violate("value-outside-[0,1]", phi=phi, got=a, ctx=ctx); break
        if phi == 0.0 and abs(a) > 1e-12:
            res.violate("nonzero-at-phi=0", got=a, ctx=ctx); break
        if phi in fast:
            res.count("fixed_point_equalities")
            if fast[phi] > 1e-3:
                res.count("nontrivial_equalities"); nt = True
            if abs(a - fast[phi]) > 1e-6:
                res.violate("differs-from-the-reference-fixed-point", phi=phi, got=a, want=fast[phi], ctx=ctx); break
            # residual: one reference update applied to the implementation's own final messages must not move them
            Ht = getattr(MP, "_H_tau", None)
            if isinstance(Ht, dict) and Ht:
                idmap = {}
                ok = True
                for m, (vs, es) in enumerate(motifs):
                    lab = G.edges[es[0]]["CoverLabel"]
                    idmap[m] = int(lab.split("-")[-1])
                try:
                    Himpl = {(v, m): Ht[(v, idmap[m])] for m, (vs, es) in enumerate(motifs) for v in vs}
                except KeyError:
                    Himpl = None
                if Himpl is not None:
                    res.count("residual_checks")
                    worst = max(abs(ref.step(Himpl, m, v, phi) - Himpl[(v, m)]) for m, (vs, es) in enumerate(motifs) for v in vs)
                    if worst > 1e-6:
                        res.violate("final-messages-are-not-a-fixed-point-of-the-motif-equations", phi=phi, residual=worst, ctx=ctx); break
    # (2) bounds + monotonicity at every iteration count, (3) histories: reused object == fresh object
    if res.verdict == "held":
        for iters in rng.sample([1, 2, 3, 5, 25], 2):
            reused = sut("MessagePassing(G, iterations=%d)" % iters, gcmpy.MessagePassing, G, iterations=iters)
            qs = [rng.choice(grid) for _ in range(rng.randint(6, 10))] + [rng.random() for _ in range(2)]
            order = rng.choice(["random", "ascending", "descending"])
            if order == "ascending":
                qs.sort()
            elif order == "descending":
                qs.sort(reverse=True)
            qs += [qs[0], qs[len(qs) // 2]]
            # two values of phi that nearly coincide (a fine sweep, a bisection): 6 .. 9 equal leading digits, different answers
            near = set()
            for _ in range(2):
                base = rng.choice([q for q in qs if 0.05 < q < 0.95] or [0.5])
                twin = min(1.0, base * (1 + rng.choice([4e-7, 3e-9, -2e-8])))
                if twin != base:
                    qs.insert(qs.index(base) + 1, twin)
                    near.add(twin)
                    res.count("nearly_coincident_phi_queries")
            seen = {}
            for phi in qs:
                if rng.random() < 0.1:
                    # injected fault: a query aborted by RecursionError inside the library (tight stack), caught; the next query
                    # on the same object must not see half-updated messages
                    st, _ = tight_stack_call(lambda: reused.theoretical(rng.choice(grid)), rng.randint(4, 25))
                    res.count("queries_aborted_by_injected_fault" if st == "aborted" else "tight_stack_queries_completed")
                a = sut("theoretical", reused.theoretical, phi)
                res.count("queries")
                res.count("bounds_checks")
                if not (-1e-12 <= a <= 1 + 1e-12):
                    res.violate("value-outside-[0,1]", phi=phi, iterations=iters, got=a, ctx=ctx); break
                if phi in seen and abs(seen[phi] - a) > 1e-12:
                    res.violate("repeated-query-gives-a-different-answer", phi=phi, iterations=iters, first=seen[phi], again=a, history=qs, ctx=ctx); break
                if phi not in seen and (len(seen) < 5 or phi in near or case["grid"] > 11):
                    fresh = sut("MessagePassing(fresh)", gcmpy.MessagePassing, G, iterations=iters)
                    b = sut("theoretical(fresh)", fresh.theoretical, phi)
                    res.count("reuse_vs_fresh_checks")
                    if abs(a - b) > 1e-12:
                        res.violate("reused-object-differs-from-fresh-object", phi=phi, iterations=iters, reused=a, fresh=b, history=qs, ctx=ctx); break
                seen[phi] = a
            if res.verdict != "held":
                break
            pts2 = sorted(seen)
            for x, y in zip(pts2, pts2[1:]):
                res.count("monotonicity_pairs")
                if seen[x] > seen[y] + 1e-12:
                    res.violate("not-monotone-in-phi", iterations=iters, phi_low=x, value_low=seen[x], phi_high=y, value_high=seen[y], ctx=ctx); break
            if res.verdict != "held":
                break
            if iters >= 1 and 0.0 in seen and abs(seen[0.0]) > 1e-12:
                res.violate("nonzero-at-phi=0", iterations=iters, got=seen[0.0], ctx=ctx); break
    # (4) history across objects: another network in the same process whose motif ids and vertex labels coincide with the first
    # one's but whose motifs have other shapes, evaluated by a NEW object; it must answer for its own network
    if res.verdict == "held":
        G2, motifs2, loopy2 = build(rng, False, like=like)
        ref2 = Reference(G2, motifs2)
        ctx2 = {"second_network_in_this_process": True, "motifs": [(vs, es) for vs, es in motifs2], "n": G2.order(), "first_network_motifs": ctx["motifs"]}
        MP2 = sut("MessagePassing(G2, iterations=40)", gcmpy.MessagePassing, G2, iterations=40)
        res.count("second_networks")
        done = 0
        for phi in [0.0] + rng.sample(grid[1:-1], len(grid) - 2):
            if done >= 3:
                break
            if phi == 0.0:
                a = sut("theoretical(second network)", MP2.theoretical, phi)
                if abs(a) > 1e-12:
                    res.violate("nonzero-at-phi=0", got=a, ctx=ctx2); break
                continue
            S, why = ref2.solve_order_independent(phi, orng)
            if why != "ok":
                continue
            done += 1
            a = sut("theoretical(second network)", MP2.theoretical, phi)
            res.count("queries")
            res.count("second_network_equalities")
            if abs(a - S) > 1e-6:
                res.violate("differs-from-the-reference-fixed-point", phi=phi, got=a, want=S, ctx=ctx2); break
    # (5) history on one graph OBJECT: its cover labels are replaced in place (here: by the edge cover - every edge its own
    # 2-clique) and a NEW MessagePassing object is built on it; it must answer for the cover the graph carries now
    if res.verdict == "held" and not frozen and rng.random() < 0.6:
        motifs3 = []
        for n_e, (a, b) in enumerate(list(G.edges())):
            vs = sorted([a, b])
            G.edges[a, b]["CoverLabel"] = f"2-{vs}-{[(a, b)]}-{1000 + n_e}"
            motifs3.append((vs, [(a, b)]))
        ref3 = Reference(G, motifs3)
        ctx3 = {"cover_labels_replaced_in_place_by_the_edge_cover": True, "edges": list(G.edges())[:40], "n": G.order(), "cover_before": ctx["motifs"]}
        MP3 = sut("MessagePassing(G after re-labelling, iterations=40)", gcmpy.MessagePassing, G, iterations=40)
        res.count("relabelled_in_place_networks")
        done = 0
        for phi in rng.sample(grid[1:-1], len(grid) - 2):
            if done >= 3:
                break
            S, why = ref3.solve_order_independent(phi, orng)
            if why != "ok":
                continue
            done += 1
            a = sut("theoretical(re-labelled graph)", MP3.theoretical, phi)
            res.count("queries")
            res.count("relabelled_network_equalities")
            if abs(a - S) > 1e-6:
                res.violate("differs-from-the-reference-fixed-point", phi=phi, got=a, want=S, ctx=ctx3); break
    res.nontrivial = nt
    res.sample = {"motifs": [(vs, es) for vs, es in motifs], "n": G.order(), "loopy": loopy, "fast_points": sorted(fast)[:12]}
    res.digest = digest(res.sample)
    return res
