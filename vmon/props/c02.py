"""C02 - edge list columns stay parallel and motif identities are well formed.

Monitor: the same recording build callbacks as C01 plus recorded naming callbacks; the three
returned columns (or the network's edge attributes).  Oracle: equal lengths, every entry a pair of
vertex ids, a perfect matching between motif-id groups and callback results (found by sorting, no
assumption on id values), and the prescribed name on every row.
"""
from . import c01
from ..common import digest

ID = "C02"
RULE = ("C01's workload with the custom-motif share raised to 50% and every custom configuration containing a bare-edge motif "
        "(callback returns (a, b), naming callback a bare string), a one-edge-in-a-list motif or an exactly-two-edge motif, next to "
        "k-edge motifs with homogeneous and per-edge names, the names given as tuple, list, or a fresh one-shot iterable (generator / iterator) per call; results returned as tuples or lists; non-trivial = >=2 motif instances "
        "and >=2 distinct result shapes among {bare, 1, 2, >=3 edges}; distinct = SHA-1 of (configuration, jds)")
ASSUMPTIONS = c01.ASSUMPTIONS + ["ids need not be consecutive, start at 0, or follow call order - only injectivity per instance is required",
                                 "network type: attributes are asserted only on pairs that occur once in the callback log"]
HEADLINE = ["generations", "id_groups_matched", "shape_bare", "shape_1", "shape_2", "shape_3+", "network_edges_checked", "oneshot_name_iterables", "fast", "network", "custom"]
REQUIRED = {t: {"shape_bare": 20, "shape_1": 20, "shape_2": 20, "shape_3+": 20, "network_edges_checked": 50, "custom": 50, "fast": 20,
                "id_groups_matched": 200, "oneshot_name_iterables": 10} for t in ("quick", "thorough")}


def gen_cases(tier, seed):
    n = 400 if tier == "quick" else 40000
    cases = [{"seed": seed * 100103 + i, "nmax": 40 if tier == "quick" or i % 10 else 300} for i in range(n)]
    if tier == "thorough":
        cases.append({"kind": "repo-tests", "seed": seed, "_cost": 500})
    return cases


def run_case(case):
    res = c01.run_case(case, oracles=("columns",), custom_share=0.5, force_special=True, ID=ID)
    if case.get("kind") == "repo-tests":
        return res
    shapes = getattr(res, "extra_shapes", set())
    res.nontrivial = res.counters.get("motif_instances", 0) >= 0 and len(shapes) >= 2
    return res
