"""C20 - the drawable edge set behaves as a set under any add/remove history.

Monitor: model-based.  Every operation of a generated history is applied to the real DrawSet and
to a plain Python set; after each operation the whole observable interface (len, iteration as a
multiset, membership over the universe) is compared.  A structural invariant runs inside the class
through icontract (auxiliary, hasattr-guarded).  Draws are driven through a RandomTap: scripted
index i for every i (exact "every member can be drawn") and seeded draws.
"""
import random

from ..common import Result, sut, SutRaised, MonitorAlarm, digest
from ..taps import RandomTap, installed
from ..interfere import interfere

ID = "C20"
RULE = ("histories of add/remove/remove-absent/add-present/draw/contains/len/iterate over universes of 1..9 (15% of int/str universes: 17..70) "
        "hashable elements (ints, sorted edge tuples, strings, equal-but-differently-typed values), op mix biased "
        "to last-inserted / first-slot / only-element removals and drain-to-empty-then-refill; a case is one whole "
        "history; non-trivial = it contains >=1 middle-slot removal and >=1 removal to empty; distinct = SHA-1 of "
        "the concrete operation sequence")
RULE += ("; rounds k-l added: " + 'per batch one large history: 1 050..1 700 members, then shrunk by removals in arbitrary order to n/3 .. 3 with re-insertions, repeated removals and draws on the way, full looks at 4 points; closing drain-and-refill phase after a quarter of the small histories (always when the private containers disagree)')
RULE += '; round m: a present element inserted while an iterator over the set is live (25% of the add-present operations)'
ASSUMPTIONS = ["model = builtin set", "draw() is observed through the module-level random used by draw_set.py; "
               "if no choice() call is seen the exact drawability part falls back to seeded sampling",
               "the look at the private containers (_edges/_edge_hashmap agree) is a diagnostic that only decides how hard a history is driven on (closing drain and refill); verdicts come from len, iteration, membership, draws and raises alone"]
HEADLINE = ["ops", "add_new", "add_present", "remove_present", "remove_middle", "remove_last_slot", "remove_to_empty",
            "remove_absent_raised", "draws", "exact_draw_points", "invariant_evals", "large_histories_grown_past_1000_and_shrunk", "closing_drain_and_refill_phases"]
REQUIRED = {"quick": {"remove_middle": 50, "remove_to_empty": 50, "remove_absent_raised": 50, "add_present": 50,
                      "draws": 500, "draw_points": 50, "large_histories_grown_past_1000_and_shrunk": 10, "closing_drain_and_refill_phases": 100},
            "thorough": {"remove_middle": 500, "remove_to_empty": 500, "remove_absent_raised": 500, "add_present": 500,
                         "draws": 5000, "draw_points": 500, "large_histories_grown_past_1000_and_shrunk": 100, "closing_drain_and_refill_phases": 1000}}
SHARD_TIMEOUT = {"quick": 300, "thorough": 3600}


def gen_cases(tier, seed):
    n = 3000 if tier == "quick" else 150000
    per = 50 if tier == "quick" else 500
    cases = []
    for b in range(0, n, per):
        cases.append({"kind": "histories", "seed": seed * 1000003 + b, "count": per})
    if tier == "thorough":
        cases.append({"kind": "repo-tests", "seed": seed, "_cost": 10 ** 6})
    return cases


def _universe(rng):
    kind = rng.choice(["int", "edge", "str", "mixed", "collide", "int", "edge"])
    n = rng.randint(1, 9)
    if kind in ("int", "str") and rng.random() < 0.15:
        n = rng.randint(17, 70)          # beyond one small hash table / beyond 32 and 64 slots
    if kind == "int":
        u = rng.sample(range(-5, 40 if n < 17 else 400), n)
    elif kind == "edge":
        u = list({tuple(sorted((rng.randrange(6), rng.randrange(6, 12)))) for _ in range(n)})
    elif kind == "str":
        u = ["e%d" % i for i in range(n)]
    elif kind == "mixed":
        u = [0, (0, 1), "0", (1, 0), frozenset([1]), 7, (0,), None, 2.5][:n]
    else:  # hash collisions: hash(2**61-1)==0, hash(-1)==hash(-2)
        u = [0, 2 ** 61 - 1, -1, -2, 2 * (2 ** 61 - 1), 1, 2 ** 61, 3, 4][:n]
    return kind, u


def _gen_ops(rng, u):
    ops = []
    model_order = []  # insertion order model only used to *aim* ops; not an oracle
    L = rng.randint(5, 60) if len(u) < 17 else rng.randint(60, 260)
    style = rng.choice(["mixed", "drain", "lastfirst", "churn"])
    while len(ops) < L:
        present = list(model_order)
        absent = [x for x in u if x not in present]
        r = rng.random()
        if style == "drain" and present and r < 0.5:
            # remove everything, then re-insert
            order = present[:] if rng.random() < 0.5 else present[::-1]
            rng.random() < 0.3 and rng.shuffle(order)
            for x in order:
                ops.append(("remove", x)); model_order.remove(x)
            ops.append(("remove_absent", rng.choice(u)))
            for x in rng.sample(u, rng.randint(1, len(u))):
                ops.append(("add", x))
                if x not in model_order:
                    model_order.append(x)
            continue
        if r < 0.30 and absent:
            x = rng.choice(absent); ops.append(("add", x)); model_order.append(x)
        elif r < 0.40 and present:
            ops.append(("add", rng.choice(present)))
        elif r < 0.70 and present:
            if style == "lastfirst":
                x = present[-1] if rng.random() < 0.5 else present[0]
            else:
                x = rng.choice(present)
            ops.append(("remove", x)); model_order.remove(x)
        elif r < 0.80:
            if absent:
                ops.append(("remove_absent", rng.choice(absent)))
            elif rng.random() < 0.5:
                ops.append(("remove_absent", ("absent", 99)))
        elif r < 0.90 and present:
            ops.append(("draw", rng.randint(1, 3)))
        elif r < 0.96:
            ops.append(("probe", None))
        else:
            # the caller goes on with a COPY of the set (checkpointing a chain, handing the set to a worker process)
            ops.append(("copy", rng.choice(["copy.copy", "copy.deepcopy", "pickle"])))
    return style, ops


def _clone(x):
    """An equal but distinct object where Python allows one (callers of DrawSet rebuild their tuples)."""
    if isinstance(x, tuple) and x:
        return tuple(list(x))
    if isinstance(x, str) and x:
        return (x + "_")[:-1]
    if isinstance(x, frozenset):
        return frozenset(set(x))
    if isinstance(x, int) and not isinstance(x, bool) and abs(x) > 1000:
        return int(str(x))
    return x


def _eq_multiset(a, b):
    a, b = list(a), list(b)
    if len(a) != len(b):
        return False
    for x in a:
        if x in b:
            b.remove(x)
        else:
            return False
    return True


_contract = {"evals": 0, "installed": False}


def install_invariant():
    """icontract invariant on the class itself (so every reference, incl. the MCMC module's, is covered)."""
    if _contract["installed"]:
        return
    import gcmpy.tools.draw_set as ds

    def structure_consistent(self):
        """DIAGNOSTIC, never a verdict: the property is about the set's behaviour, and an implementation that keeps its index in another
        shape (keyed by hash with collision handling, buckets, ...) is as right as the anchored one.  A disagreement between the private
        containers is only counted; the history it was seen in is then driven on (every member removed one by one and re-inserted, the
        whole interface compared after each step) so that a latent corruption has to show in behaviour."""
        _contract["evals"] += 1
        ok = _anchored_representation_consistent(self)
        if not ok:
            _contract["suspect"] = _contract.get("suspect", 0) + 1
        return True

    def _anchored_representation_consistent(self):
        if not (hasattr(self, "_edges") and hasattr(self, "_edge_hashmap")):
            return True
        if len(self._edges) != len(self._edge_hashmap):
            return False
        if len(self._edges) > 48:
            # large sets (MCMC edge sets): sampled positions, full sweep every 4096th evaluation
            n = len(self._edges)
            c = _contract["evals"]
            if c % 4096:
                for k in range(4):
                    i = (c * 2654435761 + k * 40503) % n
                    e = self._edges[i]
                    if self._edge_hashmap.get(e) != i:
                        return False
                return True
        for e, i in self._edge_hashmap.items():
            if not (isinstance(i, int) and 0 <= i < len(self._edges) and self._edges[i] == e):
                return False
        return True

    try:
        import icontract

        def err(self):
            return MonitorAlarm("structural-invariant-broken", edges=repr(getattr(self, "_edges", None))[:300],
                                hashmap=repr(getattr(self, "_edge_hashmap", None))[:300])
        ds.DrawSet = icontract.invariant(structure_consistent, error=err)(ds.DrawSet)
        _contract["via"] = "icontract"
    except ImportError:
        _contract["via"] = "none"
    _contract["installed"] = True
    _contract["fn"] = structure_consistent


def _one_history(rng, res, DrawSet):
    kind, u = _universe(rng)
    style, ops = _gen_ops(rng, u)
    D = sut("DrawSet()", DrawSet)
    M = set()
    order = []  # for position classes only
    tap = RandomTap(seed=rng.randrange(1 << 30), keep_log=False)
    mids = empt = 0
    # how often the monitor LOOKS is part of the history: in half of the histories the read-only observations (len, iteration,
    # membership) are made after every operation, in the other half only now and then, so that several mutations pass unobserved
    # between two looks (an implementation that refreshes a view only when it notices a change is found there)
    sparse = rng.random() < 0.5
    interfered = rng.random() < 0.4
    res.count("histories_observed_sparsely" if sparse else "histories_observed_after_every_operation")

    def compare(after):
        n = sut("len", len, D)
        if n != len(M):
            res.violate("len-differs", after=after, got=n, model=len(M), ops=ops, universe=u); return False
        items = sut("iter", list, D)
        if not _eq_multiset(items, M):
            res.violate("iteration-differs", after=after, got=items, model=list(M), ops=ops, universe=u); return False
        for x in u + [("absent", 99)]:
            q = _clone(x)
            got = sut("contains", lambda: q in D)
            if bool(got) != (x in M):
                res.violate("membership-differs", after=after, element=x, got=got, ops=ops, universe=u); return False
        return True

    with installed(tap, "drawset"):
        for k, (op, x) in enumerate(ops):
            res.count("ops")
            if op in ("add", "remove", "remove_absent"):
                x = _clone(x)
            if op == "add":
                if x in M:
                    res.count("add_present")
                    if rng.random() < 0.25:
                        # a present element is inserted while an iteration over the set is under way (`for e in s: s.add(e)`): nothing
                        # changes, so the iteration goes on and still delivers each member once - as it does for a builtin set
                        it = sut("iter", iter, D)
                        seen = []
                        try:
                            seen.append(next(it))
                        except StopIteration:
                            pass
                        sut("add", D.add, x)
                        seen.extend(sut("iter (continued after inserting a present element)", list, it))
                        res.count("add_present_during_a_live_iteration")
                        if not _eq_multiset(seen, M):
                            res.violate("iteration-differs", after=k, note="a present element was inserted while the iteration was under way", got=seen, model=list(M), ops=ops); return
                    elif sparse and rng.random() < 0.85:
                        sut("add", D.add, x)
                    else:
                        before = sut("iter", list, D)
                        sut("add", D.add, x)
                        if sut("iter", list, D) != before:
                            res.violate("add-present-changed-iteration", after=k, element=x, ops=ops); return
                else:
                    res.count("add_new")
                    sut("add", D.add, x); M.add(x); order.append(x)
            elif op == "remove":
                pos = order.index(x) if x in order else -1
                res.count("remove_present")
                if len(M) == 1:
                    res.count("remove_to_empty"); empt += 1
                # position class by observable iteration order
                try:
                    if sparse:
                        raise ValueError("not looking")
                    items = list(D)
                    slot = items.index(x)
                    if slot == len(items) - 1:
                        res.count("remove_last_slot")
                    elif slot == 0:
                        res.count("remove_first_slot")
                    if 0 <= slot < len(items) - 1:
                        res.count("remove_middle"); mids += 1
                    res.seen("op_position", "remove@%s/%d" % ("last" if slot == len(items) - 1 else slot, min(len(items), 4)))
                except ValueError:
                    pass
                sut("remove", D.remove, x); M.discard(x); order.remove(x)
            elif op == "remove_absent":
                if x in M:
                    continue
                look = not sparse or rng.random() < 0.15
                before = sut("iter", list, D) if look else None
                try:
                    D.remove(x)
                    res.violate("remove-absent-did-not-raise", after=k, element=x, ops=ops, universe=u); return
                except MonitorAlarm:
                    raise
                except Exception:
                    res.count("remove_absent_raised")
                if look and sut("iter", list, D) != before:
                    res.violate("remove-absent-changed-structure", after=k, element=x, ops=ops); return
            elif op == "draw":
                if not M:
                    continue
                if interfered and rng.random() < 0.7:
                    # the caller measures something else with the library between two draws (a percolation run, a cover, a generation)
                    interfere(rng, tap, res, only=("bond_percolate", "MPCC", "GCMAlgorithmFast", "EECC"), k=1)
                for _ in range(x):
                    d = sut("draw", D.draw)
                    res.count("draws")
                    if d not in M:
                        res.violate("draw-returned-non-member", after=k, got=d, model=list(M), ops=ops); return
            elif op == "probe":
                pass
            elif op == "copy":
                import copy as _copy
                import pickle as _pickle
                how = x
                if how == "copy.copy":
                    D = sut("copy.copy(DrawSet)", _copy.copy, D)
                    # a shallow copy may share its containers with the original: the original is dropped here, only the copy lives on
                elif how == "copy.deepcopy":
                    D = sut("copy.deepcopy(DrawSet)", _copy.deepcopy, D)
                else:
                    D = sut("pickle round trip of a DrawSet", lambda d: _pickle.loads(_pickle.dumps(d)), D)
                res.count("continued_on_a_copy")
            if sparse and k < len(ops) - 1 and rng.random() < 0.85:
                continue
            if sparse:
                res.count("sparse_looks")
            if not compare(k):
                return
            res.seen("abstract_state", "%s:%s" % (kind, sorted(map(repr, M))))
            # drawability at a few points of the history
            if M and rng.random() < 0.12:
                n = len(M)
                c0 = dict(tap.counts)
                d = sut("draw", D.draw)
                delta = {k: tap.counts[k] - c0.get(k, 0) for k in tap.counts if tap.counts[k] != c0.get(k, 0)}
                res.count("draw_points")
                hook = next(iter(delta)) if len(delta) == 1 and list(delta.values()) == [1] else None
                if hook in ("choice", "randrange"):
                    # exact: force every outcome of the single RNG call behind draw()
                    got = []
                    for i in range(n):
                        t2 = RandomTap(script={hook: [i]}, keep_log=False)
                        with installed(t2, "drawset"):
                            got.append(sut("draw", D.draw))
                        res.count("draws")
                    res.count("exact_draw_points")
                    res.count("exact_via_" + hook)
                    if not _eq_multiset(got, M):
                        res.violate("not-every-member-drawable(exact)", after=k, got=got, model=list(M), ops=ops); return
                else:
                    res.count("draw_hook_not_recognised")
                seen = set()
                for it in range(60 * n):
                    if interfered and it % 3 == 0:
                        interfere(rng, tap, None, only=("bond_percolate", "MPCC"), k=1)
                    d = sut("draw", D.draw); res.count("draws")
                    if d not in M:
                        res.violate("draw-returned-non-member", after=k, got=d, ops=ops); return
                    seen.add(d)
                if len(seen) != n:
                    res.violate("member-never-drawn-in-60n-draws", after=k, missing=[x for x in M if x not in seen], ops=ops); return
        # closing phase: what the history left behind has to carry a complete drain and refill.  Always run when the diagnostic saw the
        # private containers disagree, and in a quarter of the other histories.
        suspect = _contract.pop("suspect", 0)
        if suspect:
            res.count("histories_in_which_the_private_containers_disagreed_(diagnostic_only)")
        if suspect or rng.random() < 0.25:
            res.count("closing_drain_and_refill_phases")
            members = sorted(M, key=repr)
            rng.shuffle(members)
            for x in members:
                sut("remove", D.remove, _clone(x)); M.discard(x)
                if not compare("closing drain, removed %r" % (x,)):
                    return
            for x in u:
                sut("add", D.add, _clone(x)); M.add(x)
                if not compare("closing refill, added %r" % (x,)):
                    return
            for x in rng.sample(u, max(1, len(u) // 2)):
                sut("remove", D.remove, _clone(x)); M.discard(x)
                if not compare("closing phase, removed %r again" % (x,)):
                    return
    return (mids > 0 and empt > 0), digest([kind, u, ops]), {"universe": u, "style": style, "ops": ops}


def _large_history(rng, res, DrawSet):
    """one long-lived set that grows past a thousand members and is then shrunk to a fraction of its peak by removals in arbitrary
    (not last-in-first-out) order, with re-insertions and repeated removals on the way: what a set does when it is many times smaller
    than it once was (compaction, rebuilds, released tables) is part of its history"""
    n = rng.randint(1050, 1700)
    kind = rng.choice(["int", "edge"])
    u = list(range(n)) if kind == "int" else [(i // 40, 40 + i % 40 + i // 40) for i in range(n)]
    D = sut("DrawSet()", DrawSet)
    M = set()
    tap = RandomTap(seed=rng.randrange(1 << 30), keep_log=False)

    def look(after):
        if sut("len", len, D) != len(M):
            res.violate("len-differs", after=after, got=len(D), model=len(M), history="large"); return False
        items = sut("iter", list, D)
        if len(items) != len(M) or set(items) != M:
            res.violate("iteration-differs", after=after, got=len(items), model=len(M), history="large"); return False
        for x in u:
            if bool(sut("contains", lambda: _clone(x) in D)) != (x in M):
                res.violate("membership-differs", after=after, element=x, got=(x not in M), history="large: %d members at the peak, %d now" % (n, len(M))); return False
        return True

    with installed(tap, "drawset"):
        for x in u:
            sut("add", D.add, x); M.add(x)
        res.count("ops", n)
        if not look("filled to %d" % n):
            return False
        order = list(u)
        rng.shuffle(order)
        target = rng.choice([n // 3, n // 5, n // 9, 40, 3])
        removed = []
        for step, x in enumerate(order):
            if len(M) <= target:
                break
            sut("remove", D.remove, _clone(x)); M.discard(x); removed.append(x)
            res.count("ops"); res.count("remove_present")
            if step % 97 == 0:
                # a removed element is removed again (must raise), re-inserted and removed once more; one draw
                y = rng.choice(removed)
                if y not in M:
                    try:
                        D.remove(_clone(y))
                        res.violate("remove-absent-did-not-raise", element=y, history="large"); return False
                    except MonitorAlarm:
                        raise
                    except Exception:
                        res.count("remove_absent_raised")
                    sut("add", D.add, _clone(y)); M.add(y)
                    if len(D) != len(M):
                        res.violate("len-differs", after="re-insertion of a removed element", got=len(D), model=len(M), element=y, history="large"); return False
                    sut("remove", D.remove, _clone(y)); M.discard(y)
                d = sut("draw", D.draw); res.count("draws")
                if d not in M:
                    res.violate("draw-returned-non-member", got=d, history="large"); return False
            if step in (n // 2, (3 * n) // 4, (7 * n) // 8) and not look("%d removals" % (step + 1)):
                return False
        if not look("shrunk to %d of %d" % (len(M), n)):
            return False
        for x in rng.sample(removed, min(len(removed), 200)):
            sut("add", D.add, _clone(x)); M.add(x)
        if not look("200 removed members re-inserted"):
            return False
    res.count("large_histories_grown_past_1000_and_shrunk")
    return True


def run_case(case):
    import gcmpy.tools.draw_set as ds
    if case.get("kind") == "repo-tests":
        from ..repotests import run as _run_repo_tests
        res = Result()
        _run_repo_tests(ID, res)
        res.nontrivial = True
        res.digest = "repo-tests"
        res.sample = {"kind": "repo-tests", "notes": res.notes[:2]}
        return res
    install_invariant()
    res = Result()
    rng = random.Random(case["seed"])
    nontriv = 0
    first_sample = None
    digs = []
    if not _large_history(rng, res, ds.DrawSet):
        res.nontrivial = True
        res.digest = digest([case["seed"], case["count"]])
        return res
    for i in range(case["count"]):
        out = _one_history(rng, res, ds.DrawSet)
        if out is None:
            break
        nt, dg, sample = out
        res.count("histories")
        if nt:
            nontriv += 1
            res.seen("nontrivial_history", dg)
            if first_sample is None:
                first_sample = sample
    res.counters["invariant_evals"] = _contract["evals"]
    _contract["evals"] = 0
    res.nontrivial = nontriv > 0
    res.digest = digest([case["seed"], case["count"]])
    res.sample = first_sample
    return res


def finalize(counters, sets, tier):
    return {"distinct_nontrivial": len(sets.get("nontrivial_history", ())),
            "states": len(sets.get("abstract_state", ())),
            "invariant_backend": "icontract.invariant on DrawSet (class decorated in place)"}
