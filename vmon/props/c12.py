"""C12 - MCMC rewiring only creates pairings the target allows and approaches it.

(1) Hard rule: every add_edge on the monitored working graph is looked up in the target (both
orientations) at the next quiescent point (vmon/mcmc.py); targets have random subsets of pairings removed
or zeroed (symmetrically), never one present in the start network.  (2) Approach: L1 distance between the
network's mixing matrices (reference extractor, not the library's) and a full-support assortative target
before and after rewiring; start networks are partly assortative so that a correct Metropolis rule is
separated from an inverted one and from none at all.  Workload family ids_sorted_by_class carries the
known finding K2.
"""
import random

from ..common import Result, sut, digest
from ..graphs import MonitoredGraph, check_clean, build_clean_network
from ..mcmc import SwapMonitor, reference_mixing, l1
from . import c11

ID = "C12"
K2 = "focal-vertex-is-min-endpoint"
RULE = ("(1) C11's clean networks built 60..90% class-assortative, with targets (uniform / product / assortative over the excess classes) from which "
        "10..70% of the unordered pairings not present in the start network are deleted or set to 0.0 (both orientations together), sometimes a whole "
        "row; in 30% of the targets some pairings the network already has are scaled to ~1e-9 (tiny but positive); in 35% of these runs the SAME rewiring object is then given another target (other pairings removed) for the SAME network through the rewirer's or the matrices' ejks setter and rewired again; (2) 2-/3-clique (and 2-/4-clique in thorough) networks with 2..4 joint-degree classes, N 300..450, start 40% assortative, target "
        "0.2*q q^T + 0.8*diag(q), CONVERGENCE_LIMIT = 0.75 |E|, vertex ids shuffled (must approach) or sorted by class (known finding K2); (2b) 'short-cross': hand-composed two-class triangle networks (60 % cross-class "
        "edges) towards a target with 80 % cross-class weight, only 0.18 |E| swaps, so that corners are still whole triangle corners; "
        "non-trivial = (1) >= 1 removed pairing that a proposal actually asked for, (2) |before - after| > 0.1; distinct = SHA-1 of the case")
RULE += ("; rounds k-l added: " + 'families as C11 incl. the new ones; allowed-pairing clause decided before any C11 clause; a quarter of the runs with logging disabled process-wide; tiny weights scaled once per unordered pairing')
ASSUMPTIONS = ["a pairing is unordered: (a,b) and (b,a) are removed together and a created edge is accepted if either orientation has positive weight",
               "clause (2) is about typical behaviour: decided on workloads where the measured effect is > 20x the sampling noise, verdict = plain after < before",
               "violations of C11's clauses seen by the shared monitor are not C12's to report: such a run is counted inconclusive here"]
HEADLINE = ["hard_rule_runs", "reused_object_runs", "created_edges", "accepted_swaps", "proposals", "numerator_missing_key", "numerator_zero_weight", "zero_draws_armed_on_forbidden_proposals", "forced_zero_draws_consumed", "forbidden_pairings", "stopped_runs",
            "retargeted_runs", "retargeted_created_edges", "targets_with_tiny_positive_weights", "approach_runs", "approach_decreased", "approach_sorted_ids_runs", "approach_sorted_ids_not_decreased"]
REQUIRED = {"quick": {"created_edges": 500, "numerator_missing_key": 20, "numerator_zero_weight": 20, "approach_runs": 5, "forbidden_pairings": 50, "retargeted_created_edges": 100, "targets_with_tiny_positive_weights": 10},
            "thorough": {"created_edges": 20000, "numerator_missing_key": 500, "numerator_zero_weight": 500, "approach_runs": 30, "forbidden_pairings": 1000, "retargeted_created_edges": 2000, "targets_with_tiny_positive_weights": 200}}
MAX_INCONCLUSIVE_FRACTION = 0.1
SHARD_TIMEOUT = {"quick": 900, "thorough": 14400}
HARD_CLAUSES = ("created-edge-joins-a-pairing-the-target-forbids", "returned-graph-contains-a-new-edge-on-a-forbidden-pairing")


def gen_cases(tier, seed):
    cases = []
    n1 = 90 if tier == "quick" else 2000
    for i in range(n1):
        cases.append({"kind": "hard", "seed": seed * 100343 + i, "thorough": tier == "thorough"})
    if tier == "quick":
        for i in range(3):
            cases.append({"kind": "approach", "ids": "shuffled", "seed": seed * 100357 + i, "_cost": 40, "fam": "c2c3"})
        cases.append({"kind": "approach", "ids": "sorted", "seed": seed * 100357 + 7, "_cost": 40, "fam": "c2c3"})
        for i in range(2):
            cases.append({"kind": "approach", "ids": "shuffled", "seed": seed * 100357 + 50 + i, "_cost": 20, "fam": "c3", "variant": "short-cross"})
        for i in range(3):
            cases.append({"kind": "approach", "ids": "shuffled", "seed": seed * 100357 + 70 + i, "_cost": 40, "fam": "c2", "variant": "mild"})
    else:
        for i in range(34):
            cases.append({"kind": "approach", "ids": "shuffled", "seed": seed * 100357 + i, "_cost": 60, "fam": "c2c4" if i % 4 == 3 else "c2c3", "thorough": True})
        for i in range(6):
            cases.append({"kind": "approach", "ids": "sorted", "seed": seed * 100357 + 100 + i, "_cost": 60, "fam": "c2c3", "thorough": True})
        for i in range(12):
            cases.append({"kind": "approach", "ids": "shuffled", "seed": seed * 100357 + 200 + i, "_cost": 30, "fam": "c3", "variant": "short-cross", "thorough": True})
        for i in range(16):
            cases.append({"kind": "approach", "ids": "shuffled", "seed": seed * 100357 + 300 + i, "_cost": 60, "fam": "c2", "variant": "mild", "thorough": True})
    return cases


def forbid(rng, G, names, T, present):
    """removes (deletes or zeroes) a random subset of the pairings no existing edge uses; returns how many pairings were removed"""
    removed = 0
    for t in names:
        keys = c11.excess_keys(G, names)[t]
        pairs = [(a, b) for i, a in enumerate(keys) for b in keys[i:] if present[t].get(a + b, 0) == 0]
        rng.shuffle(pairs)
        frac = rng.uniform(0.1, 0.7)
        kill = pairs[: int(round(frac * len(pairs)))]
        if keys and rng.random() < 0.15:
            row = rng.choice(keys)
            kill += [(row, b) for b in keys if present[t].get(row + b, 0) == 0 and present[t].get(b + row, 0) == 0]
        for a, b in kill:
            mode = rng.choice(["delete", "zero"])
            for k in (a + b, b + a):
                if k in T[t]:
                    if mode == "delete":
                        del T[t][k]
                    else:
                        T[t][k] = 0.0
            removed += 1
    return removed


def run_hard(case, res, reuse=None, rng=None):
    from gcmpy import ToolsNames as TN
    rng = rng or random.Random(case["seed"])
    fam = rng.choice(list(c11.FAMILIES))
    N = rng.randint(30, 90)
    G, info, classes = c11.make_network(rng, fam, N, ids="shuffled", assort=rng.choice([0.6, 0.8, 0.9]))
    names = info["names"]
    why = check_clean(G)
    if why:
        raise RuntimeError("builder produced an unclean network: " + why)
    kind = rng.choice(["uniform", "product", "assortative"])
    T = c11.make_target(rng, G, names, kind)
    present = reference_mixing(G, names)
    removed = forbid(rng, G, names, T, present)
    if rng.random() < 0.3:
        # "existing edges keep positive weight" - however small: some pairings the network already has get a weight near 1e-9
        # (next to explicit zeros this is where a rule that floors or rounds weights starts to manufacture forbidden pairings)
        tiny = 0
        tiny_scale = rng.choice([1e-9, 1e-9, 1e-14, 1e-30])
        for t in names:
            done = set()
            for k in list(T[t]):
                half = len(k) // 2
                mirror = k[half:] + k[:half]
                if k in done:
                    continue           # a pairing and its mirror image are ONE weight: scaled once (twice would be 1e-60, where the
                done.update((k, mirror))   # product over a 4-clique's corner underflows to 0.0 - no longer a positive weight at all)
                if T[t][k] > 0 and present[t].get(k, 0) > 0 and rng.random() < 0.6:
                    w = T[t][k] * tiny_scale
                    T[t][k] = w
                    if mirror in T[t]:
                        T[t][mirror] = w
                    tiny += 1
        if tiny:
            res.count("targets_with_tiny_positive_weights")
    res.count("forbidden_pairings", removed)
    extra = {TN.CONVERGENCE_LIMIT: rng.choice([20, 100, 300]), TN.SEARCH_LIMIT: rng.choice([5, 25])}
    base = {"kind": "hard", "family": fam, "N": N, "classes": classes, "target": kind, "forbidden_pairings": removed,
            "params": {str(k.value): v for k, v in extra.items()}, "seed": case["seed"]}
    quick = not case.get("thorough")
    mon = c11.run_rewire(res, G, names, T, extra, seed=case["seed"], ctx=base, cap=40000 if quick else 400000, stall=8000 if quick else 60000, reuse=reuse,
                         force_zero_draws=0.3 if case["seed"] % 2 else 0.0)
    res.count("hard_rule_runs")
    res.count("accepted_swaps", mon.accepted)
    res.count("proposals", mon.props)
    res.count("created_edges", mon.created)
    for k, c in mon.reach.items():
        res.count(k, c)
    if mon.stopped:
        res.count("stopped_runs")
    if mon.violation is not None:
        clause, detail = mon.violation
        if clause in HARD_CLAUSES:
            res.violate(clause, ctx=base, **detail)
        else:
            res.inconclusive("monitor aborted on a C11 clause: " + clause)
    res.nontrivial = res.nontrivial or (removed >= 1 and (mon.reach.get("numerator_missing_key", 0) + mon.reach.get("numerator_zero_weight", 0)) >= 1)
    if reuse is None and res.verdict == "held" and rng.random() < 0.35 and getattr(mon, "obj", None) is not None and mon.returned:
        # history: same rewiring object, SAME network, the target replaced (other pairings forbidden) through a setter; the rule
        # must follow the target in force
        T2 = c11.make_target(rng, G, names, rng.choice(["uniform", "product", "assortative"]))
        removed2 = forbid(rng, G, names, T2, present)
        how = rng.choice(["ejks-setter", "matrices-setter"])
        base2 = dict(base, retargeted_through=how, forbidden_pairings_now=removed2)
        mon2 = c11.run_rewire(res, G, names, T2, extra, seed=case["seed"] + 7, ctx=base2, cap=40000 if quick else 400000, stall=8000 if quick else 60000,
                              reuse=mon.obj, retarget=how)
        res.count("retargeted_runs")
        res.count("forbidden_pairings", removed2)
        res.count("accepted_swaps", mon2.accepted)
        res.count("proposals", mon2.props)
        res.count("created_edges", mon2.created)
        res.count("retargeted_created_edges", mon2.created)
        for k, c in mon2.reach.items():
            res.count(k, c)
        if mon2.violation is not None:
            clause, detail = mon2.violation
            if clause in HARD_CLAUSES:
                res.violate(clause, ctx=base2, **detail)
            else:
                res.inconclusive("monitor aborted on a C11 clause: " + clause)
    if reuse is None and res.verdict == "held" and rng.random() < 0.3 and getattr(mon, "obj", None) is not None:
        # history: same rewiring object, another network and another target with other forbidden pairings
        run_hard(case, res, reuse=mon.obj, rng=rng)
        return
    if reuse is not None:
        return
    res.sample = dict(base, accepted=mon.accepted, proposals=mon.props, asked_for_missing=mon.reach.get("numerator_missing_key", 0),
                      asked_for_zero=mon.reach.get("numerator_zero_weight", 0), created=mon.created, stopped=mon.stopped)
    res.digest = digest(base)


def build_two_class_triangles(rng, NA, NB, mixed_each, dA=2, dB=4):
    """harness-built clean triangle network with a prescribed composition: NA vertices in dA triangles, NB in dB triangles,
    `mixed_each` triangles of shape AAB and as many of shape ABB, the rest pure; vertex ids unrelated to class.
    A start that is already more cross-class than chance (so that a rule accepting too freely drifts back towards chance)."""
    from gcmpy import NetworkNames as NN
    ids = list(range(NA + NB))
    rng.shuffle(ids)
    A, B = ids[:NA], ids[NA:]
    for _ in range(200):
        stubs = {"A": [v for v in A for _ in range(dA)], "B": [v for v in B for _ in range(dB)]}
        rng.shuffle(stubs["A"]); rng.shuffle(stubs["B"])
        na = (len(stubs["A"]) - 3 * mixed_each) // 3
        nb = (len(stubs["B"]) - 3 * mixed_each) // 3
        if na < 0 or nb < 0:
            raise RuntimeError("composition impossible")
        shapes = ["AAB"] * mixed_each + ["ABB"] * mixed_each + ["AAA"] * na + ["BBB"] * nb
        G = MonitoredGraph()
        G._quiet = True
        G.add_nodes_from(range(NA + NB))
        ok = True
        for mid, shape in enumerate(shapes):
            for _attempt in range(300):
                picks = [rng.randrange(len(stubs[c])) for c in shape]
                tri = [stubs[c][i] for c, i in zip(shape, picks)]
                es = [(tri[0], tri[1]), (tri[0], tri[2]), (tri[1], tri[2])]
                same = any(shape[i] == shape[j] and picks[i] == picks[j] for i in range(3) for j in range(i))
                if not same and len(set(tri)) == 3 and not any(G.has_edge(*e) for e in es):
                    break
            else:
                ok = False
                break
            for c in "AB":
                for i in sorted({p for s_, p in zip(shape, picks) if s_ == c}, reverse=True):
                    stubs[c][i] = stubs[c][-1]
                    stubs[c].pop()
            for a, b in es:
                G.add_edge(a, b)
                G.edges[a, b][NN.TOPOLOGY] = "3-clique"
                G.edges[a, b][NN.MOTIF_IDS] = mid
        if ok and not stubs["A"] and not stubs["B"]:
            for v in A:
                G.nodes[v][NN.JOINT_DEGREE] = (dA,)
            for v in B:
                G.nodes[v][NN.JOINT_DEGREE] = (dB,)
            G._quiet = False
            G.events = []
            return G
    raise RuntimeError("could not build the two-class triangle network")


def run_approach(case, res):
    from gcmpy import ToolsNames as TN
    rng = random.Random(case["seed"])
    fam = case.get("fam", "c2c3")
    families = c11.FAMILIES[fam]
    k = rng.choice([3, 3, 4]) if case["ids"] == "shuffled" else 3
    pool = [(5, 1), (3, 2), (1, 3), (2, 1), (4, 2), (1, 1)] if fam == "c2c3" else [(4, 1), (2, 2), (1, 1), (3, 1)]
    classes = rng.sample(pool, k) if case["ids"] == "shuffled" else [(5, 1), (3, 2), (1, 3)]
    if case["ids"] == "shuffled" and case.get("variant") is None and case["seed"] % 2 == 0:
        classes = classes[:-1] + [(0, 2)]       # vertices that are in triangles (4-cliques) only: the topologies' supports differ in width
    N = rng.randint(300, 450)
    tkind, lam, frac, assort = "assortative", 0.8, 0.75, 0.4
    if case.get("variant") == "short-disassortative":
        # few swaps on a network whose corners are still whole motifs' corners (triangles), two classes, target with most weight
        # on the cross-class pairings: a rule that mishandles multi-edge corners shows here before the chain has scrambled them
        classes = [(1,), (2,)] if fam == "c3" else rng.sample(pool, 2)
        N = rng.randint(700, 900)
        tkind, lam, frac, assort = "disassortative", 0.85, 0.08, -0.6
    if case.get("variant") == "mild":
        # a target only MODERATELY different from the start: the network starts at chance mixing, the target is mildly assortative
        # (20..35% of the mass moved to the diagonal).  A rule whose acceptance ratios are off by a constant factor between
        # self-paired and cross pairings still "approaches" a strongly assortative target, and drifts away from a mild one
        pool1 = [(1,), (2,), (3,), (4,)]
        classes = rng.sample(pool1, 2) if fam == "c2" else rng.sample(pool, 2)
        N = rng.randint(500, 700)
        N = rng.randint(900, 1200)
        tkind, lam, frac, assort = "assortative", rng.choice([0.08, 0.12, 0.16]), 1.5, 0.0
    if case.get("variant") == "short-cross":
        # already 60 % cross-class edges, target 80 %: few swaps, corners still whole triangles' corners
        NA = rng.choice([480, 600])
        G = build_two_class_triangles(rng, NA, NA // 2, int(0.45 * (NA * 2 + NA // 2 * 4) / 3))
        names, fam, classes, N = ["3-clique"], "c3-two-class", [(2,), (4,)], NA + NA // 2
    else:
        G, info = build_clean_network(rng, N, families, classes, assort=assort, ids=case["ids"], graph_cls=MonitoredGraph)
        names = info["names"]
    why = check_clean(G)
    if why:
        raise RuntimeError("builder produced an unclean network: " + why)
    T = c11.make_target(rng, G, names, tkind, lam=lam)
    E = G.number_of_edges()
    if case.get("variant") == "short-cross":
        T = {"3-clique": {(1, 1): 0.1, (1, 3): 0.4, (3, 1): 0.4, (3, 3): 0.1}}
        frac = 0.18
    extra = {TN.CONVERGENCE_LIMIT: int(frac * E), TN.SEARCH_LIMIT: 20}
    before = l1(reference_mixing(G, names), T, names)
    base = {"kind": "approach", "ids": case["ids"], "family": fam, "N": N, "classes": classes, "edges": E, "limit": int(frac * E), "seed": case["seed"],
            "variant": case.get("variant", "long-assortative")}
    mon = c11.run_rewire(res, G, names, T, extra, seed=case["seed"], ctx=base, cap=None, stall=400000)
    res.count("approach_runs")
    res.count("accepted_swaps", mon.accepted)
    res.count("proposals", mon.props)
    res.count("created_edges", mon.created)
    if mon.violation is not None and mon.violation[0] in HARD_CLAUSES:
        res.violate(mon.violation[0], ctx=base, **mon.violation[1]); return
    if mon.H is None or mon.violation is not None:
        res.inconclusive("no graph to measure: %s" % (mon.violation[0] if mon.violation else mon.stopped)); return
    after = l1(reference_mixing(mon.H, names), T, names)
    base.update(before=round(before, 4), after=round(after, 4), accepted=mon.accepted, proposals=mon.props, stopped=mon.stopped)
    res.sample = base
    res.digest = digest([case["seed"], case["ids"], fam])
    res.nontrivial = abs(before - after) > (0.1 if case.get("variant") not in ("short-disassortative", "short-cross", "mild") else 0.01)
    if case["ids"] == "sorted":
        res.count("approach_sorted_ids_runs")
        if not (after < before):
            res.count("approach_sorted_ids_not_decreased")
            res.known.append({"mechanism": K2, "detail": {"before": round(before, 4), "after": round(after, 4), "N": N, "classes": classes,
                                                           "family": "ids_sorted_by_class", "accepted_swaps": mon.accepted}})
        return
    if after < before:
        res.count("approach_decreased")
    else:
        res.violate("distance-to-a-full-support-target-did-not-decrease", before=before, after=after, ctx=base)


def run_case(case):
    res = Result()
    if case["kind"] == "hard":
        run_hard(case, res)
    else:
        run_approach(case, res)
    return res
