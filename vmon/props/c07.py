"""C07 - split-degree and delta loaders preserve the overall degree law.

Monitor: the `.jdd` mapping read back after construction through both construction paths; the fp
callable is a counting harness wrapper (which k were asked is an observed fact).  Oracle: own
enumeration of admissible splits (nested loops) and the law in exact rational arithmetic.
"""
import math
import numbers
import random
from fractions import Fraction
from itertools import product

from ..common import Result, sut, digest
from ..taps import InjectedFault, RandomTap, installed

ID = "C07"
RULE = ("random configurations: overall degree function from gcmpy's own distributions or a random positive table "
        "(occasionally with zeros) or, in 12%, a degree function doing exact integer arithmetic (poisson with an int mean, binomial weights; range width 22..36), 1..4 clique topologies, probability vectors on the simplex with probs[0]>0 "
        "(zero components and one-hot included), ranges lo in 0..3, width 1..12, loader in {split, delta}, delta "
        "target inside / at both ends / outside; both construction paths; non-trivial = >=2 degrees in range and a "
        "degree with >=2 admissible splits; distinct = SHA-1 of the concrete configuration")
RULE += ("; rounds k-l added: " + 'hub cases (12% of the two-topology configurations): overall degrees 940..1066 with a table of vertex counts 1e6..1e8')
RULE += '; round n: a sample-and-tabulate step (sample_jds_from_jdd + convert_jds_to_jdd on the same loader) before a rebuild, in a third of the rebuild histories'
ASSUMPTIONS = ["probs[0] > 0 (otherwise odd degrees have no admissible split of positive weight and the law is undefined)",
               "the upper end of the degree range may be inclusive or exclusive; collapse to fewer degrees is a violation",
               "floats are converted exactly to rationals; comparison at 1e-9 absolute on probabilities"]
HEADLINE = ["configs", "split", "delta", "keys_checked", "degrees_checked", "multi_split_degrees", "target_inside", "target_outside", "dispatcher_path", "zero_prob_component", "recreate_checks"]
REQUIRED = {t: {"split": 20, "delta": 20, "multi_split_degrees": 50, "target_inside": 5, "target_outside": 2,
                "dispatcher_path": 20, "zero_prob_component": 3, "earlier_loader_rechecked_after_a_later_one_was_built": 20, "integer_arithmetic_degree_functions": 5} for t in ("quick", "thorough")}
TOL = 1e-9


def gen_cases(tier, seed):
    n = 300 if tier == "quick" else 60000
    return [{"seed": seed * 100003 + i} for i in range(n)]


def splits(k, T):
    """all n in N^T with sum (i+1) n_i = k (own enumeration: highest topology first, the first column takes the rest)."""
    out = []

    def rec(i, rest, tail):
        if i == 0:
            out.append((rest,) + tail)
            return
        for c in range(0, rest // (i + 1) + 1):
            rec(i - 1, rest - c * (i + 1), (c,) + tail)
    rec(T - 1, k, ())
    return out


def build_config(rng):
    import gcmpy
    T = rng.choice([1, 2, 2, 3, 3, 4])
    # probability vector
    style = rng.choice(["dirichlet", "zeros", "onehot", "equal"])
    if style == "onehot":
        probs = [1.0] + [0.0] * (T - 1)
    elif style == "equal":
        probs = [1.0 / T] * T
    else:
        w = [rng.random() + 0.05 for _ in range(T)]
        if style == "zeros" and T > 1:
            for i in rng.sample(range(1, T), rng.randint(1, T - 1)):
                w[i] = 0.0
        s = sum(w)
        probs = [x / s for x in w]
    lo = rng.choice([0, 1, 1, 2, 3])
    width = rng.randint(1, 12)
    if T <= 2 and rng.random() < 0.06:
        lo, width = rng.choice([1, 200, 250]), rng.randint(40, 90)      # overall degrees beyond 255
    hi = lo + width
    fkind = rng.choice(["table", "table", "table_zero", "power_law", "poisson", "exponential", "cutoff"])
    if lo + width > 100:
        fkind = rng.choice(["table", "power_law"])
    if lo == 0 and fkind in ("power_law", "cutoff"):
        fkind = "poisson"
    if T <= 3 and lo + width <= 100 and rng.random() < 0.12:
        # degree functions that do exact INTEGER arithmetic on k (the library's own poisson with an int-typed mean computes
        # mean**k; a caller's binomial computes comb(n, k) * a**k * b**(n-k) / (a+b)**n): values pass 2**63 inside the range
        fkind = rng.choice(["poisson_int", "intbinomial"])
        lo, width = rng.choice([0, 1, 2]), rng.randint(22, 36)
        hi = lo + width
    hubs = False
    if T == 2 and rng.random() < 0.12:
        # hubs: overall degrees around a thousand, the degree function a table of vertex COUNTS (unnormalised, 1e6..1e8): the weight of one
        # split is then about 0.5**1000 = 1e-301, still a float, and count / weight is not
        hubs = True
        lo, width = rng.randint(940, 1060), rng.randint(2, 6)
        hi = lo + width
        fkind = "table"
        if style != "equal" and rng.random() < 0.6:
            probs = [0.5, 0.5]
    if fkind.startswith("table"):
        tab = {k: rng.choice([0.5, 1.0, 2.0, 3.0, 0.25, rng.random() + 0.01]) for k in (range(0, hi + 3) if not hubs else range(lo - 2, hi + 3))}
        if hubs:
            tab = {k: float(rng.randint(10 ** 6, 10 ** 8)) for k in tab}
        if fkind == "table_zero":
            for k in rng.sample(range(lo, hi + 1), min(2, width)):
                tab[k] = 0.0
            if all(tab[k] == 0.0 for k in range(lo, hi)):
                tab[lo] = 1.0
        fpar = tab
    elif fkind == "power_law":
        fpar = [rng.choice([2.0, 2.5, 3.0])]
    elif fkind == "cutoff":
        fpar = [rng.choice([2.0, 2.5]), rng.choice([5.0, 20.0])]
    elif fkind == "poisson":
        fpar = [rng.choice([0.5, 2.0, 4.5])]
    elif fkind == "poisson_int":
        fpar = [rng.choice([9, 12, 20])]
    elif fkind == "intbinomial":
        fpar = [rng.choice([45, 60]), rng.choice([1, 2]), 3]
    else:
        fpar = [rng.choice([0.3, 1.0])]
    loader = rng.choice(["split", "delta"])
    target = None
    if loader == "delta":
        target = rng.choice([lo, hi - 1, hi, rng.randint(lo, hi), lo - 1, hi + 2, rng.randint(lo, hi), 0, 0, 1])
    if hubs:
        loader = rng.choice(["split", "split", "delta"])
    path = rng.choice(["direct", "dispatcher"])
    recreate = rng.choice([0, 0, 1, 2])
    return {"recreate": recreate, "T": T, "probs": probs, "lo": lo, "hi": hi, "fkind": fkind, "fpar": fpar, "loader": loader,
            "target": target, "path": path}


def make_fp(cfg, asked):
    import gcmpy
    k = cfg["fkind"]
    if k.startswith("table"):
        tab = {int(a): b for a, b in cfg["fpar"].items()}
        base = lambda x: tab[x]
    elif k == "power_law":
        base = gcmpy.power_law(*cfg["fpar"])
    elif k == "cutoff":
        base = gcmpy.scale_free_cut_off(*cfg["fpar"])
    elif k in ("poisson", "poisson_int"):
        base = gcmpy.poisson(*cfg["fpar"])
    elif k == "intbinomial":
        n_, a_, b_ = cfg["fpar"]
        base = lambda x: math.comb(n_, int(x)) * a_ ** x * b_ ** (n_ - x) / (a_ + b_) ** n_      # x itself (not int(x)) in the powers, as a caller would write it
    else:
        base = gcmpy.exponential(*cfg["fpar"])

    def fp(x):
        asked.append(x)
        if fp.fault is not None:
            fp.fault -= 1
            if fp.fault <= 0:
                fp.fault = None
                raise InjectedFault("raised by the caller's degree function")
        return float(base(x))
    fp.fault = None
    return fp, base


def check_config(res, cfg, keep=None):
    import gcmpy
    from gcmpy import JointDegreeNames as N
    T, probs, lo, hi = cfg["T"], cfg["probs"], cfg["lo"], cfg["hi"]
    asked = []
    fp, base = make_fp(cfg, asked)
    # the probability vector as the caller may hold it: a list, a tuple or a numpy array (which the loader must not write to)
    pform = ["list", "list", "tuple", "ndarray"][int(sum(probs) * 1e6 + T + lo + hi) % 4] if cfg.get("probs_form") is None else cfg["probs_form"]
    if pform == "ndarray":
        import numpy as np
        probs_arg = np.array(probs, dtype=float)
        res.count("probs_given_as_numpy_array")
    elif pform == "tuple":
        probs_arg = tuple(probs)
    else:
        probs_arg = list(probs)
    keep_probs = probs_arg
    params = {N.FP: fp, N.PROBS: probs_arg, N.MOTIF_SIZES: list(range(2, T + 2)), N.LOW_HIGH_DEGREE_BOUND: (lo, hi)}
    if cfg["loader"] == "delta":
        params[N.TARGET_K] = cfg["target"]
        cls, typ = gcmpy.JointDegreeDelta, "delta"
    else:
        cls, typ = gcmpy.JointDegreeSplitDegree, "split_degree"
    res.count(cfg["loader"])
    res.count("configs")
    if cfg["path"] == "direct":
        obj = sut(f"{cls.__name__}(params)", cls, params)
    else:
        res.count("dispatcher_path")
        params[N.JOINT_DEGREE_TYPE] = typ
        obj = sut("JointDegreeDistribution.load_joint_degree", gcmpy.JointDegreeDistribution.load_joint_degree, params)
        if type(obj).__name__ != cls.__name__:
            res.violate("dispatcher-returned-wrong-loader", got=type(obj).__name__, want=cls.__name__, cfg=cfg)
            return False
    jdd = sut("read .jdd", lambda: obj.jdd)
    if isinstance(jdd, dict) and cfg.get("recreate"):
        # history on one loader: building the table again must give the same table
        first = dict(jdd)
        rng_hist = random.Random(cfg["hi"] * 7919 + cfg["lo"])
        for it in range(cfg["recreate"]):
            if cfg["recreate"] == 2 and it == 0:
                # injected fault: the table is being rebuilt when the caller's degree function raises (at its 3rd call); the caller
                # catches it and builds the table again
                fp.fault = 3
                try:
                    obj.create_jdd()
                    res.count("rebuilds_with_a_fault_that_never_fired")
                except InjectedFault:
                    res.count("rebuilds_aborted_by_a_raising_degree_function")
                except Exception:
                    res.count("rebuilds_aborted_otherwise")
                fp.fault = None
            elif it == 0 and cfg["hi"] <= 60 and (cfg["lo"] + cfg["hi"]) % 3 == 0:
                # the loader is USED in between: a sequence is sampled from it and tabulated back into it through the base class's own
                # public helper (the table is then the empirical one, with the tuples the handshaking step added); building the table
                # again must give the table of the degree function and probabilities, nothing left over
                try:
                    with installed(RandomTap(seed=7 + cfg["hi"], keep_log=False), "jd"):
                        js = obj.sample_jds_from_jdd(rng_hist.randint(5, 40))
                    obj.convert_jds_to_jdd(js)
                    res.count("tables_replaced_by_a_sampled_empirical_table_before_the_rebuild")
                except Exception:      # noqa: BLE001 - sampling and tabulating have their own properties
                    res.count("sample_and_tabulate_steps_that_raised")
            sut("create_jdd (again)", obj.create_jdd)
            res.count("recreate_checks")
        jdd = sut("read .jdd", lambda: obj.jdd)
        if not (isinstance(jdd, dict) and set(jdd) == set(first) and all(abs(jdd[k] - first[k]) <= 1e-12 for k in first)):
            res.violate("building-the-table-again-changed-the-distribution", first=repr(sorted(first.items()))[:300], again=repr(jdd)[:300], cfg=cfg)
            return False
    if not isinstance(jdd, dict) or not jdd:
        res.violate("jdd-not-a-nonempty-dict", got=repr(jdd)[:200], cfg=cfg)
        return False
    if [float(x) for x in keep_probs] != [float(x) for x in probs]:
        # not a clause of this property by itself (the law is); recorded, and the law is re-checked below by building a second
        # loader from the caller's (possibly altered) vector only if it still is a probability vector - here: counted
        res.count("loads_that_altered_the_caller's_probability_vector")
    if keep is not None:
        keep["obj"], keep["jdd"] = obj, dict(jdd)
    if any(p == 0.0 for p in probs):
        res.count("zero_prob_component")
    if cfg["fkind"] in ("poisson_int", "intbinomial"):
        res.count("integer_arithmetic_degree_functions")
    # ---- keys well formed
    deg = {}
    for key, val in jdd.items():
        if not (isinstance(key, tuple) and len(key) == T and all(isinstance(x, numbers.Integral) and not isinstance(x, bool) and x >= 0 for x in key)):
            res.violate("key-not-a-joint-degree", key=repr(key), cfg=cfg); return False
        if not (float(val) >= -1e-15):
            res.violate("negative-mass", key=key, value=val, cfg=cfg); return False
        key = tuple(int(x) for x in key)          # numpy integers are integers: the harness's own arithmetic uses Python ints
        k = sum((i + 1) * x for i, x in enumerate(key))
        if not (lo <= k <= hi):
            res.violate("key-outside-degree-range", key=key, k=k, cfg=cfg); return False
        deg.setdefault(k, []).append(key)
    tot = sum(jdd.values())
    if abs(tot - 1.0) > TOL:
        res.violate("does-not-sum-to-one", total=tot, cfg=cfg); return False
    fpv = {k: Fraction(float(base(k))) for k in range(lo, hi + 1) if not (k == 0 and cfg["fkind"] in ("power_law", "cutoff"))}
    Kobs = set(deg)
    need = {k for k in range(lo, hi) if fpv.get(k, 0) > 0}
    if not need <= Kobs:
        # a degree with positive fp whose keys all carry zero mass would still be present as keys
        res.violate("degree-of-the-range-missing", missing=sorted(need - Kobs), present=sorted(Kobs), cfg=cfg); return False
    Z = sum(fpv[k] for k in Kobs)
    if Z == 0:
        return False
    P = [Fraction(p) for p in probs]
    multi = False
    for k in sorted(Kobs):
        res.count("degrees_checked")
        if cfg["loader"] == "delta" and k != cfg["target"]:
            adm = {tuple([k] + [0] * (T - 1)): Fraction(1)}
        else:
            sp = splits(k, T)
            w = {}
            for n in sp:
                x = Fraction(1)
                for i, c in enumerate(n):
                    x *= P[i] ** ((i + 1) * c)
                w[n] = x
            W = sum(w.values())
            adm = {n: x / W for n, x in w.items()}
            if len(sp) >= 2:
                multi = True
                res.count("multi_split_degrees")
        extra = set(deg[k]) - set(adm)
        if extra:
            res.violate("inadmissible-key", k=k, keys=sorted(extra), cfg=cfg); return False
        for n, share in adm.items():
            want = float(fpv[k] * share / Z)
            got = float(jdd.get(n, 0.0))
            res.count("keys_checked")
            if abs(got - want) > TOL:
                res.violate("mass-differs-from-law", k=k, key=n, got=got, want=want,
                            total_mass_k=sum(jdd.get(x, 0.0) for x in adm), want_mass_k=float(fpv[k] / Z), cfg=cfg)
                return False
    if cfg["loader"] == "delta":
        res.count("target_inside" if cfg["target"] in Kobs else "target_outside")
    return len(Kobs) >= 2 and multi


def run_case(case):
    res = Result()
    rng = random.Random(case["seed"])
    cfg = build_config(rng)
    keep = {}
    nt = check_config(res, cfg, keep)
    if res.verdict == "held" and keep and rng.random() < 0.4:
        # two loaders alive in one process: building (and checking) a later one must leave the earlier one's table alone
        cfg2 = build_config(rng)
        check_config(res, cfg2)
        res.count("earlier_loader_rechecked_after_a_later_one_was_built")
        if res.verdict == "held":
            again = sut("read .jdd of the earlier loader", lambda: keep["obj"].jdd)
            first = keep["jdd"]
            if not (isinstance(again, dict) and set(again) == set(first) and all(abs(again[k] - first[k]) <= 1e-12 for k in first)):
                res.violate("an-earlier-loader's-table-changed-when-a-later-loader-was-built", earlier=cfg, later=cfg2,
                            before=repr(sorted(first.items()))[:300], now=repr(again)[:300])
    res.nontrivial = bool(nt)
    c = dict(cfg)
    res.digest = digest(c)
    res.sample = c
    return res
