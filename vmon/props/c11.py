"""C11 - MCMC rewiring preserves vertices, degrees and motif structure.

Monitor: see vmon/mcmc.py - monitored input graph, monitored working copy (event stream), per-swap
settlement at every swap_condition entry with shadow state, budgeted histories.  The verdict on "every
motif keeps its shape" is a per-swap isomorphism check; the swap *signature* (ideal / K1 / other) only
classifies a failure for the known finding K1 (KNOWN_FINDINGS.txt).
"""
import random

import networkx as nx

from ..common import Result, sut, digest, BudgetStop, tight_stack_call
from ..taps import RandomTap, installed, InjectedFault
from ..graphs import MonitoredGraph, CanonicalEdgesMonitoredGraph, build_clean_network, check_clean
from ..mcmc import SwapMonitor, installed_monitor, K1
from . import c20

ID = "C11"
RULE = ("clean motif networks from the harness builder: families {2-clique}, {2-,3-clique}, {2-,4-clique}, {3-clique, 4-cycle}, {2-clique, 5-cycle}, "
        "{2-clique, 6-cycle}, K4 ('diamond'), and custom motifs with two edge names (4-cycle with a chord: outer/inner edges; wedges a-x-b-y-c, alone and next to 2-cliques); 2..4 joint-degree classes, N 20..80 "
        "(quick) / up to 400 (thorough), on average >= 2 motifs per vertex, ids shuffled or sorted by class, 30% of the networks with an extra class of vertices that are in no motif (joint degree all zero), 30% with list-valued annotations; full-support targets (uniform, product of "
        "marginals, assortative mix); parameters: limits omitted / CONVERGENCE_LIMIT in {0,1,5,50,500,5000} / SEARCH_LIMIT in {1,5,25}; 1 seed per case; 30% of the cases then point the SAME rewiring object at another network/target through its setters and rewire again; "
        "non-trivial = >= 10 accepted swaps and (>= 2 topologies or a corner of >= 2 edges); distinct = SHA-1 of (network, target, parameters, seed)")
RULE += ("; rounds k-l added: " + 'single-name motifs with corners of different sizes (wedge, star, path on 4, chorded 4-cycle), paths b-c-b with two names, 96 (quick) small dense networks (10..20 vertices) of paths / stars / 6-cycles in which motifs share vertices (short capped chains: only swaps between motifs still as given are judged there), a quarter of the runs with logging disabled process-wide')
ASSUMPTIONS = ["inputs are clean by construction and re-checked before use (harness code)",
               "how rewire() makes its working copy is not prescribed: a MonitoredGraph copy is followed as it is, any other nx.Graph is adopted (re-classed) at the first proposal, working on the given graph itself is reported at its first mutation",
               "rewire() is unwound by logical budgets (thorough: proposals <= 3000*limit + 200000 and a stall window of 100000 proposals without an accepted swap; quick: 60000 proposals, stall window 15000; draws <= 50x the proposal budget); everything observed up to a stop is checked, the run is recorded as stopped",
               "a shape failure is attributed to the known finding K1 only if every shape-breaking swap carries the K1 signature"]
HEADLINE = ["runs", "accepted_swaps", "proposals", "sig_K1", "sig_ideal", "sig_other", "shape_fail_K1", "shape_ok_swaps", "self_loop_corner_proposals",
            "default_limit_runs", "reused_object_runs", "list_annotation_runs", "rewire_again_after_in_place_edit_of_the_network", "rewire_calls_aborted_by_injected_fault", "targets_with_tiny_positive_weights", "runs_on_vertex_objects", "runs_on_a_frozen_input_graph", "runs_with_isolated_vertices", "adopted_working_graphs", "stopped_runs", "drawset_invariant_evals", "input_events", "created_edges", "swaps_between_two_untouched_motifs", "untouched_motif_swaps_shape_decided", "runs_with_logging_disabled_process_wide"]
REQUIRED = {"quick": {"accepted_swaps": 2000, "self_loop_corner_proposals": 20, "default_limit_runs": 5, "hooks_installed": 100, "two_name_runs": 3, "runs_with_isolated_vertices": 10, "untouched_motif_swaps_shape_decided": 100, "runs_on_single_name_motifs_with_corners_of_different_sizes": 5},
            "thorough": {"accepted_swaps": 100000, "self_loop_corner_proposals": 500, "default_limit_runs": 100, "hooks_installed": 1000, "two_name_runs": 50, "runs_with_isolated_vertices": 100, "untouched_motif_swaps_shape_decided": 1000, "runs_on_single_name_motifs_with_corners_of_different_sizes": 50}}
SHARD_TIMEOUT = {"quick": 900, "thorough": 14400}

FAMILIES = {
    "c2": [("2-clique", "clique", 2)],
    "c3": [("3-clique", "clique", 3)],
    "c2c3": [("2-clique", "clique", 2), ("3-clique", "clique", 3)],
    "c2c4": [("2-clique", "clique", 2), ("4-clique", "clique", 4)],
    "c3cyc4": [("3-clique", "clique", 3), ("4-cycle", "cycle", 4)],
    "c2cyc5": [("2-clique", "clique", 2), ("5-cycle", "cycle", 5)],
    "c2cyc6": [("2-clique", "clique", 2), ("6-cycle", "cycle", 6)],
    "k4": [("diamond", "diamond", 4)],
    "two-name": [("2-clique", "clique", 2), (["d-outer"] * 4 + ["d-inner"], "chord", 4)],
    # wedge a -x- b -y- c: the middle vertex's corner carries one edge of each name
    "wedge": [(["w-x", "w-y"], "path", 3)],
    "c2wedge": [("2-clique", "clique", 2), (["w-x", "w-y"], "path", 3)],
    # motifs that are NOT vertex-transitive while all their edges carry one name: corners of different sizes (a wedge's centre has two
    # motif edges, its leaves one; a star's hub three; the chorded 4-cycle's chord ends three, the others two) meet in one topology
    "wedge1": [("wedge", "path", 3)],
    "c2wedge1": [("2-clique", "clique", 2), ("wedge", "path", 3)],
    "star1": [("star", "star", 4)],
    "c2chord1": [("2-clique", "clique", 2), ("chord", "chord", 4)],
    "path4": [("path4", "path", 4)],
    # a path on four vertices whose end edges share a name and whose middle edge has another: the far end is two steps of ANOTHER name away
    "path4-bcb": [(["p-b", "p-c", "p-b"], "path", 4)],
    "c2path4-bcb": [("2-clique", "clique", 2), (["p-b", "p-c", "p-b"], "path", 4)],
}


def gen_cases(tier, seed):
    n = 120 if tier == "quick" else 1200
    # small networks of paths, stars and 6-cycles in which every vertex lies in several motifs: two motifs then often share a vertex that
    # is adjacent to neither focal vertex - the situation in which a swap would put a vertex into a motif twice
    dense = [{"seed": seed * 100333 + 5000 + i, "nmin": 10, "nmax": 20, "fam": f, "thorough": tier == "thorough", "_cost": 0.3}
             for i, f in enumerate(["path4", "path4-bcb", "c2path4-bcb", "path4-bcb", "c2cyc6", "star1", "path4", "path4-bcb"] * (12 if tier == "quick" else 60))]
    return dense + [{"seed": seed * 100333 + i, "nmax": 80 if tier == "quick" or i % 6 else 400, "big": tier == "thorough" and i % 6 == 0, "thorough": tier == "thorough",
             "_cost": 1 if tier == "quick" or i % 6 else 6} for i in range(n)]


def excess_keys(G, names):
    from gcmpy import NetworkNames as NN
    out = {}
    for i, t in enumerate(names):
        ks = set()
        for v in G.nodes():
            jd = list(G.nodes[v][NN.JOINT_DEGREE])
            if jd[i] > 0:
                jd[i] -= 1
                ks.add(tuple(jd))
        out[t] = sorted(ks)
    return out


def end_fractions(G, names):
    from gcmpy import NetworkNames as NN
    out = {}
    for i, t in enumerate(names):
        q = {}
        for u, v, d in G.edges(data=True):
            if d[NN.TOPOLOGY] == t:
                for w in (u, v):
                    jd = list(G.nodes[w][NN.JOINT_DEGREE]); jd[i] -= 1
                    q[tuple(jd)] = q.get(tuple(jd), 0) + 1
        tot = sum(q.values()) or 1
        out[t] = {k: c / tot for k, c in q.items()}
    return out


def make_target(rng, G, names, kind, lam=0.8):
    keys = excess_keys(G, names)
    q = end_fractions(G, names)
    T = {}
    for t in names:
        ks = keys[t]
        if not ks:
            T[t] = {}
            continue
        if kind == "uniform":
            T[t] = {a + b: 1.0 / len(ks) ** 2 for a in ks for b in ks}
        else:
            qq = {k: q[t].get(k, 1e-3) for k in ks}
            z = sum(qq.values())
            qq = {k: v / z for k, v in qq.items()}
            if kind == "disassortative" and len(ks) > 1:
                # mass lam on the off-diagonal (in proportion to q_a q_b), 1 - lam on the diagonal (in proportion to q_a^2); full support
                off = sum(qq[a] * qq[b] for a in ks for b in ks if a != b)
                dia = sum(qq[a] ** 2 for a in ks)
                T[t] = {a + b: (lam * qq[a] * qq[b] / off if a != b else (1 - lam) * qq[a] ** 2 / dia) for a in ks for b in ks}
                continue
            l = 0.0 if kind == "product" else lam
            T[t] = {a + b: (1 - l) * qq[a] * qq[b] + (l * qq[a] if a == b else 0.0) for a in ks for b in ks}
    return T


class Site:
    """a caller's vertex object: hashed and compared by identity, orderable (the library sorts the end points of an edge)"""
    __slots__ = ("i",)

    def __init__(self, i):
        self.i = i

    def __lt__(self, other):
        return self.i < other.i

    def __repr__(self):
        return "Site(%r)" % (self.i,)


def make_network(rng, fam, N, ids="shuffled", assort=0.0, graph_cls=MonitoredGraph):
    families = FAMILIES[fam]
    T = len(families)
    k = rng.choice([2, 3, 3, 4])
    base = [[2, 1], [1, 2], [3, 1], [2, 2], [0, 2], [2, 0], [0, 1]]      # incl. vertices that take part in only one of the two topologies
    if T == 1:
        classes = [(x,) for x in rng.sample([1, 2, 3, 4], k)]
    else:
        classes = [tuple(c) for c in rng.sample(base, k)]
    weights = None
    if rng.random() < 0.3:
        # vertices that are in no motif at all (joint degree all zero) are part of a network too
        ncol = len(classes[0])
        classes = classes + [(0,) * ncol]
        weights = [1.0] * (len(classes) - 1) + [0.25]
    canonical = graph_cls is MonitoredGraph and rng.random() < 0.12
    if canonical:
        graph_cls = CanonicalEdgesMonitoredGraph
    G, info = build_clean_network(rng, N, families, classes, class_weights=weights, assort=assort, ids=ids, graph_cls=graph_cls, scramble=rng.random() < 0.5)
    if canonical:
        info["canonical_edge_orientation"] = True
    info["isolated_vertices"] = sum(1 for v in G.nodes() if G.degree(v) == 0)
    r = rng.random()
    if r < 0.1:
        # vertices that are the caller's own objects (hashable by identity, orderable): the returned graph must be on THESE objects
        sites = {v: Site(v) for v in G.nodes()}
        G2 = graph_cls()
        q = getattr(G2, "_quiet", None)
        if q is not None:
            G2._quiet = True
        for v, d in G.nodes(data=True):
            G2.add_node(sites[v], **{})
            G2.nodes[sites[v]].update(d)
        for a, b, d in G.edges(data=True):
            G2.add_edge(sites[a], sites[b])
            G2.edges[sites[a], sites[b]].update(d)
        if q is not None:
            G2._quiet = False
            G2.events = []
        G = G2
        info["vertex_objects"] = True
    elif r < 0.22:
        # a frozen graph (nx.freeze): the caller's way of saying "do not touch"; rewiring works on its own copy anyway
        nx.freeze(G)
        info["frozen"] = True
    if rng.random() < 0.3:
        # annotations as lists (hand-written / JSON-loaded joint degree sequences): mutable objects shared by a shallow graph copy
        from gcmpy import NetworkNames as NN
        for v in G.nodes():
            G.nodes[v][NN.JOINT_DEGREE] = list(G.nodes[v][NN.JOINT_DEGREE])
        info["list_annotations"] = True
    return G, info, classes


def run_rewire(res, G, names, T, params_extra, seed, budget_scale=1.0, ctx=None, cap=None, stall=None, reuse=None, retarget=None, force_zero_draws=0.0):
    import gcmpy
    from gcmpy import ToolsNames as TN
    net = gcmpy.Network()
    net.G = G
    order = list(T)
    if len(order) > 1 and seed % 2:
        order = order[::-1]            # a mapping has no order: EDGE_NAMES says which joint-degree column a topology is
        res.count("target_dict_order_differs_from_names")
    tmap = {n: T[n] for n in order}
    if seed % 5 == 1:
        # the per-topology matrices as read-only mappings (a target loaded once and shared between runs)
        import types
        tmap = {n: types.MappingProxyType(dict(T[n])) for n in order}
        res.count("targets_given_as_read_only_mappings")
    names_obj = list(names)        # the caller's own list object, handed to every library helper that wants the topology names
    tm = sut("JointExcessJointDegreeMatrices(target)", gcmpy.JointExcessJointDegreeMatrices, {TN.EJKS: tmap, TN.EDGE_NAMES: names_obj})
    if seed % 3 == 0 or (ctx or {}).get("kind") == "approach":
        # the pipeline of the library's own rewiring test, run before rewiring: target matrices -> excess distributions -> joint
        # degree distribution, every step given the caller's ONE names list
        try:
            qk = gcmpy.JointExcessFromEjk.get_excess_joint_distributions(tm)
            gcmpy.JointDegreeFromExcess.get_joint_degree_distribution(qk, names_obj)
            res.count("pipeline_run_on_the_target_before_rewiring")
        except Exception:
            res.count("pipeline_steps_that_raised")
    params = {TN.NETWORK: net, TN.EJKS: tm}
    params.update(params_extra)
    if seed % 7 == 2:
        import numpy as np
        for k_ in (TN.CONVERGENCE_LIMIT, TN.SEARCH_LIMIT):
            if k_ in params:
                params[k_] = np.int64(params[k_])        # limits read from a numpy array of settings
        res.count("limits_given_as_numpy_integers")
    limit = params_extra.get(TN.CONVERGENCE_LIMIT, 10 * G.number_of_edges())
    budget_props = int((3000 * limit + 200000) * budget_scale)
    if cap:
        budget_props = min(budget_props, cap)
    mon = SwapMonitor(res, G, names, T, budget_props, 50 * budget_props, ctx or {})
    if stall:
        mon.stall_window = stall
    tap = RandomTap(seed=seed, keep_log=False)
    mon.tap = tap
    mon.force_zero_draw_rate = force_zero_draws
    mon.coin.seed(seed)
    H = None
    returned = False
    import logging as _logging
    quiet_logging = seed % 4 == 3
    if quiet_logging:
        # the caller has silenced logging for the whole process before building the rewiring object (logging.disable, the standard
        # way to quieten a chatty library); restored after the run
        _prev_disable = _logging.root.manager.disable
        _logging.disable(_logging.CRITICAL)
        res.count("runs_with_logging_disabled_process_wide")
    try:
        return _run_rewire_body(res, G, mon, tap, im_args=(reuse, retarget, params, T, order, tm, net, limit, params_extra))
    finally:
        if quiet_logging:
            _logging.disable(_prev_disable)


def _run_rewire_body(res, G, mon, tap, im_args):
    import gcmpy
    from gcmpy import ToolsNames as TN
    reuse, retarget, params, T, order, tm, net, limit, params_extra = im_args
    H = None
    returned = False
    with installed_monitor(mon) as im, installed(tap, "mcmc", "drawset"):
        res.count("hooks_installed", im.hooks)
        if reuse is None:
            m = sut("MarkovChainMonteCarloRewiring(params)", gcmpy.MarkovChainMonteCarloRewiring, params)
        else:
            # call history on one object: a new network / target / limits through the public setters, then rewire() again
            m = reuse

            def _reconfigure():
                if retarget == "matrices-setter":
                    # same network, same matrices object: only the target mapping is replaced through the matrices' own setter
                    m.ejks.ejks = {n: T[n] for n in order}
                elif retarget == "ejks-setter":
                    m.ejks = tm
                elif retarget == "nothing":
                    pass            # the network object was edited in place by its owner: nothing is re-configured
                else:
                    m.network = net
                    m.ejks = tm
                m.convergence_limit = limit
                if TN.SEARCH_LIMIT in params_extra:
                    m.search_limit = params_extra[TN.SEARCH_LIMIT]
            sut("reconfigure through setters", _reconfigure)
            res.count("reused_object_runs")
        try:
            H = sut("rewire", m.rewire)
            returned = True
        except BudgetStop:
            work = [c for c in G.children if getattr(c, "role", "") == "working"]
            H = work[-1] if work else (mon.foreign[-1] if mon.foreign else None)
    mon.final(H, returned)
    mon.returned = returned
    mon.obj = m
    mon.H = H
    mon.rng_calls = dict(tap.counts)
    mon.reach["forced_zero_draws_consumed"] += tap.other.get("forced_random", 0)
    return mon


def fold_monitor(res, mon, base):
    """turn what the monitor saw into counters, a verdict and (possibly) the known finding K1"""
    res.count("runs")
    res.count("accepted_swaps", mon.accepted)
    res.count("proposals", mon.props)
    res.count("created_edges", mon.created)
    res.count("input_events", len(mon.G_in.events))
    for s, c in mon.sig.items():
        res.count("sig_" + s, c)
    for k, c in mon.reach.items():
        res.count(k, c)
    res.count("shape_ok_swaps", mon.accepted - sum(mon.shape_fail.values()))
    for s, c in mon.shape_fail.items():
        res.count("shape_fail_" + s, c)
    if mon.stopped:
        # the short chains on small dense networks are cut off on purpose after 3 000 proposals (only their first swaps are judged): they
        # are counted apart and do not enter the budget-stop fraction that makes a run inconclusive
        res.count("short_dense_runs_cut_off_as_planned" if base.get("dense") else "stopped_runs")
    if base.get("dense"):
        res.count("short_dense_runs")
    if mon.violation is not None:
        clause, detail = mon.violation
        res.violate(clause, ctx=base, **detail)
        return
    bad_sigs = {s: c for s, c in mon.shape_fail.items() if s != "K1"}
    if bad_sigs:
        res.violate("an-accepted-swap-changed-the-shape-of-a-motif", signatures=bad_sigs, example=mon.shape_fail_example, ctx=base)
        return
    fb = getattr(mon, "final_broken", 0)
    if mon.shape_fail.get("K1"):
        res.known.append({"mechanism": K1, "detail": {"shape_breaking_swaps_all_with_K1_signature": mon.shape_fail["K1"], "accepted_swaps": mon.accepted,
                                                       "motifs_not_isomorphic_at_return": fb, "motifs": getattr(mon, "final_motifs", None),
                                                       "example": mon.shape_fail_example}})
    elif fb:
        res.violate("motifs-of-the-returned-graph-are-not-isomorphic-to-the-originals", broken=fb, example=getattr(mon, "final_broken_example", None),
                    note="no accepted swap was seen to break a shape", ctx=base)


def run_case(case):
    from gcmpy import ToolsNames as TN
    res = Result()
    rng = random.Random(case["seed"])
    fam = rng.choice(list(FAMILIES))
    if case.get("fam"):
        fam = case["fam"]
        res.count("runs_on_small_dense_path_and_cycle_networks(vertices_shared_by_many_motifs)")
    default_limits = rng.random() < 0.25
    # the documented default is 10 x |E| accepted swaps: keep those runs on small networks
    N = rng.randint(20, 30) if default_limits and not case.get("big") else rng.randint(case.get("nmin", 20), case.get("nmax", 80))
    G, info, classes = make_network(rng, fam, N, ids=rng.choice(["shuffled", "shuffled", "sorted"]), assort=rng.choice([0.0, 0.0, 0.5]))
    names = info["names"]
    why = check_clean(G)
    if why:
        raise RuntimeError("builder produced an unclean network: " + why)
    kind = rng.choice(["uniform", "product", "assortative"])
    T = make_target(rng, G, names, kind)
    if rng.random() < 0.2:
        # full support, however small: some pairings (both orientations) carry a weight 1e-14..1e-30 times the others
        sc = rng.choice([1e-14, 1e-20, 1e-30])
        for t in names:
            for k_ in list(T[t]):
                h = len(k_) // 2
                if k_[:h] <= k_[h:] and rng.random() < 0.4:
                    T[t][k_] *= sc
                    if k_[h:] + k_[:h] in T[t] and k_[h:] != k_[:h]:
                        T[t][k_[h:] + k_[:h]] = T[t][k_]
        res.count("targets_with_tiny_positive_weights")
    extra = {}
    if default_limits:
        res.count("default_limit_runs")
        if rng.random() < 0.5:
            extra[TN.SEARCH_LIMIT] = rng.choice([5, 25])
    else:
        extra[TN.CONVERGENCE_LIMIT] = rng.choice([0, 1, 5, 50, 50, 500, 500, 5000 if case.get("big") else 200])
        if rng.random() < 0.6:
            extra[TN.SEARCH_LIMIT] = rng.choice([1, 5, 25])
    if fam in ("two-name", "wedge", "c2wedge", "path4-bcb", "c2path4-bcb"):
        res.count("two_name_runs")
    if fam in ("wedge1", "c2wedge1", "star1", "c2chord1", "path4"):
        res.count("runs_on_single_name_motifs_with_corners_of_different_sizes")
    if info.get("list_annotations"):
        res.count("list_annotation_runs")
    if info.get("isolated_vertices"):
        res.count("runs_with_isolated_vertices")
    if info.get("vertex_objects"):
        res.count("runs_on_vertex_objects")
    if info.get("canonical_edge_orientation"):
        res.count("runs_on_a_graph_subclass_with_canonical_edge_orientation")
    if info.get("frozen"):
        res.count("runs_on_a_frozen_input_graph")
    base = {"family": fam, "N": N, "classes": classes, "target": kind, "motifs": info["motifs"], "edges": G.number_of_edges(),
            "params": {str(k.value): v for k, v in extra.items()}, "seed": case["seed"]}
    quick = not case.get("thorough")
    dense = bool(case.get("fam"))
    if dense:
        base["dense"] = True
    mon = run_rewire(res, G, names, T, extra, seed=case["seed"], ctx=base, cap=(3000 if dense else 60000) if quick or dense else None,
                     stall=(1500 if dense else 15000) if quick or dense else 100000)
    fold_monitor(res, mon, base)
    if dense:
        # only the swaps between motifs that are still as given matter here: a short chain, no follow-up histories
        res.nontrivial = mon.accepted >= 1
        res.sample = dict(base, accepted=mon.accepted, proposals=mon.props, signatures=dict(mon.sig), stopped=mon.stopped)
        res.digest = digest([base, sorted(map(sorted, G.edges()))[:50]])
        return res
    if res.verdict == "held" and mon.returned and not nx.is_frozen(G) and rng.random() < 0.3:
        # history: the owner edits the network's graph IN PLACE (degree-preserving swaps between two 2-clique motifs: same graph
        # object, same number of edges, still a clean motif network) and calls rewire() again on the same rewiring object
        from gcmpy import NetworkNames as NN
        two = [(u, v) for u, v, d in G.edges(data=True) if d[NN.TOPOLOGY] == "2-clique"]
        swapped = 0
        q = G._quiet
        G._quiet = True
        try:
            for _ in range(40):
                if len(two) < 2 or swapped >= 3:
                    break
                (a, b), (c, d) = rng.sample(two, 2)
                if len({a, b, c, d}) < 4 or G.has_edge(a, d) or G.has_edge(c, b) or not (G.has_edge(a, b) and G.has_edge(c, d)):
                    continue
                d1, d2 = dict(G.edges[a, b]), dict(G.edges[c, d])
                G.remove_edge(a, b); G.remove_edge(c, d)
                G.add_edge(a, d); G.edges[a, d].update(d1)
                G.add_edge(c, b); G.edges[c, b].update(d2)
                two = [e for e in two if e not in ((a, b), (c, d))] + [(a, d), (c, b)]
                swapped += 1
        finally:
            G._quiet = q
            del G.events[:]
        if swapped and not check_clean(G):
            res.count("rewire_again_after_in_place_edit_of_the_network")
            base1 = dict(base, history=["rewire()", "%d in-place 2-clique swaps on the network's own graph" % swapped, "rewire()"])
            mon1 = run_rewire(res, G, names, T, extra, seed=case["seed"] + 3, ctx=base1, cap=60000 if quick else None, stall=15000 if quick else 100000,
                              reuse=mon.obj, retarget="nothing")
            fold_monitor(res, mon1, base1)
            mon.accepted += mon1.accepted
    if res.verdict == "held" and mon.returned and rng.random() < 0.2:
        # injected fault: a rewire() that dies in the middle of the chain (an exception raised at its n-th random draw - a failpoint
        # at an existing call site) and is caught by the caller; the same rewiring object is then used again and must behave like a
        # fresh one
        t0 = RandomTap(seed=case["seed"] + 5, keep_log=False)
        t0.fail_at = rng.choice([1, 2, 3, 10, 50, 200, 1000, 3000])
        st = "completed"
        with installed(t0, "mcmc", "drawset"):
            try:
                mon.obj.rewire()
            except InjectedFault:
                st = "aborted"
            except Exception:
                st = "raised"
        del G.events[:]
        res.count("rewire_calls_aborted_by_injected_fault" if st == "aborted" else "fault_injection_runs_not_aborted")
        base3 = dict(base, history=["rewire()", "rewire() aborted by an exception injected at a random draw" if st == "aborted" else "rewire() (%s)" % st, "rewire()"])
        mon3 = run_rewire(res, G, names, T, extra, seed=case["seed"] + 9, ctx=base3, cap=60000 if quick else None, stall=15000 if quick else 100000,
                          reuse=mon.obj, retarget="nothing")
        fold_monitor(res, mon3, base3)
        mon.accepted += mon3.accepted
    if res.verdict == "held" and rng.random() < 0.3:
        # history: the same rewiring object is pointed at another network / target and run again
        fam2 = rng.choice(list(FAMILIES))
        G2, info2, classes2 = make_network(rng, fam2, rng.randint(20, 40), ids="shuffled", assort=rng.choice([0.0, 0.5]))
        if not check_clean(G2):
            T2 = make_target(rng, G2, info2["names"], rng.choice(["uniform", "product", "assortative"]))
            extra2 = {TN.CONVERGENCE_LIMIT: rng.choice([5, 50, 100]), TN.SEARCH_LIMIT: rng.choice([5, 25])}
            base2 = dict(base, second_run_on_same_object={"family": fam2, "classes": classes2, "edges": G2.number_of_edges(),
                                                          "params": {str(k.value): v for k, v in extra2.items()}})
            mon2 = run_rewire(res, G2, info2["names"], T2, extra2, seed=case["seed"] + 1, ctx=base2, cap=60000 if quick else None,
                              stall=15000 if quick else 100000, reuse=mon.obj)
            fold_monitor(res, mon2, base2)
            mon.accepted += mon2.accepted
    max_corner = 1 if fam == "c2" else 2
    res.nontrivial = mon.accepted >= 10 and (len(names) >= 2 or max_corner >= 2)
    res.sample = dict(base, accepted=mon.accepted, proposals=mon.props, signatures=dict(mon.sig), stopped=mon.stopped)
    res.digest = digest([base, sorted(map(sorted, G.edges()))[:50]])
    return res


def finalize(counters, sets, tier):
    out = {}
    inc = []
    full_runs = max(1, counters.get("runs", 0) - counters.get("short_dense_runs", 0))
    if counters.get("stopped_runs", 0) > 0.2 * full_runs:
        inc.append("more than 20%% of the runs hit the logical budget (%d of %d)" % (counters.get("stopped_runs", 0), full_runs))
    if counters.get("accepted_swaps", 0) and not (counters.get("sig_K1", 0) + counters.get("sig_ideal", 0) + counters.get("sig_other", 0)):
        inc.append("swap_condition hook never classified a swap")
    if inc:
        out["_inconclusive"] = inc
    out["states"] = counters.get("accepted_swaps", 0)
    return out
