"""C04 - edge list <-> network conversion loses nothing.

Monitor: both static convert() functions are called on edge lists produced by the real generators
(and on hand-made hostile ones); inputs are deep-copied before and compared after; the network
handed to the reverse conversion carries a MonitoredGraph, whose event log must stay empty.
Oracle: reference conversion at set level written here (dict pair -> rows), round-trip identities.
"""
import copy
import random
from collections import Counter, defaultdict

from ..common import Result, sut, digest
from ..taps import RandomTap, installed
from ..graphs import MonitoredGraph, snapshot, same_snapshot
from .. import gen

ID = "C04"
RULE = ("edge lists produced by gcmpy's own fast and custom generators on random handshake-consistent jds (N 1..40, every 8th case up "
        "to 200; zero-degree vertices incl. vertex 0 and vertex N-1 in ~40%; all stubs on one vertex => self-loops and repeated pairs), "
        "plus all-zero jds, single-vertex jds, size-1 motifs without edges and sequences with leftover stubs (a vertex that owns stubs but receives no edge); each is converted to a network, back, and forth again; non-trivial = (a zero-degree "
        "vertex or a repeated pair or a self-loop) and >= 2 edges; distinct = SHA-1 of the concrete edge list")
RULE += ("; rounds k-l added: " + 'edge lists with pairs written as lists (callbacks returning their own argument list), names that are str-Enum members, topologies sharing a name')
RULE += '; round m: one edge list with more than 2**20 entries per quick run (180 000 vertices in 2-cliques and triangles)'
ASSUMPTIONS = ["nothing is demanded about which row wins for a repeated pair", "names/ids compared by equality"]
HEADLINE = ["edge_lists", "forward_conversions", "reverse_conversions", "round_trips", "with_zero_degree", "with_repeated_pair", "with_self_loop",
            "all_zero_jds", "single_vertex", "vertex_with_stubs_but_no_edge", "leftover_stub_sequences", "unique_pair_attrs_checked", "exact_round_trip_checked", "input_graph_mutation_events"]
REQUIRED = {t: {"with_zero_degree": 30, "with_repeated_pair": 30, "with_self_loop": 20, "all_zero_jds": 2, "single_vertex": 2,
                "exact_round_trip_checked": 20, "unique_pair_attrs_checked": 500, "vertex_with_stubs_but_no_edge": 10} for t in ("quick", "thorough")}


def gen_cases(tier, seed):
    n = 500 if tier == "quick" else 60000
    cases = [{"seed": seed * 100183 + i, "nmax": 200 if i % 8 == 0 else 40} for i in range(n)]
    # scale: an edge list with more than 2**20 entries (a network of 180 000 vertices in 2-cliques and triangles)
    for i in range(1 if tier == "quick" else 2):
        cases.append({"seed": seed * 100183 + 910000 + i, "huge": True, "_cost": 3000})
    if tier == "thorough":
        cases.append({"kind": "repo-tests", "seed": seed, "_cost": 500})
    return cases


def make_edge_list(rng, res, nmax, huge=False):
    import gcmpy
    special = rng.random()
    if huge:
        cfg = {"flavour": "fast", "motifs": [["clique", 2], ["clique", 3]], "names": ["e", "t"], "decoy": False, "lib_arg": "list", "scratch": False,
               "path": "direct", "use_library": True}
        N = rng.randint(176000, 190000)
        N -= N % 6
        jds = [(6, 3)] * N
        for _ in range(2000):
            jds[rng.randrange(N)] = (0, 0)
        # restore divisibility: totals of both columns must stay multiples of 2 and 3
        z = sum(1 for jd in jds if jd == (0, 0))
        while (6 * (N - z)) % 2 or (3 * (N - z)) % 3:
            z += 1
        res.count("edge_lists_with_more_than_2**20_entries")
    elif special < 0.03:
        cfg = gen.make_fast_config(rng)
        cfg["flavour"] = "fast"
        N = rng.randint(1, 12)
        jds = [tuple([0] * len(cfg["motifs"])) for _ in range(N)]
        res.count("all_zero_jds")
    else:
        cfg = gen.make_custom_config(rng) if rng.random() < 0.35 else gen.make_fast_config(rng, allow_empty=True)
        if cfg["flavour"] == "network":
            cfg["flavour"] = "fast"
        sparse = rng.random() < 0.45
        jds, _ = gen.make_jds(rng, cfg, nmax=1 if special < 0.06 else (max(nmax, 120) if sparse else nmax), sparse=sparse)
        if cfg["flavour"] == "fast" and rng.random() < 0.2 and all(m[0] in ("clique", "path", "star", "empty") for m in cfg["motifs"]):
            # leftover stubs: a hand-supplied sequence whose stub total is not a multiple of the motif size is accepted silently (short last
            # group), so the generator can emit an edge list in which a vertex owns stubs but no edge
            jl = [list(x) for x in jds]
            for c, m in enumerate(cfg["motifs"]):
                if m[1] > 1:
                    for _ in range(rng.randint(1, m[1] - 1)):
                        jl[rng.randrange(len(jl))][c] += 1
            jds = [tuple(x) for x in jl]
            res.count("leftover_stub_sequences")
    cfg["path"] = "direct"
    if len(jds) == 1:
        res.count("single_vertex")
    rec = gen.Recorder()
    alg, cls = gen.build_algorithm(cfg, rec)
    with installed(RandomTap(seed=rng.randrange(1 << 30), keep_log=False), "fast", "custom"):
        el = sut("random_clustered_graph", alg.random_clustered_graph, list(jds))
    return cfg, jds, el


def el_columns(el):
    return list(el.edge_list), list(el.topologies), list(el.motif_id), list(el.joint_degrees)


def check_forward(res, el, net, ctx):
    """reference semantics of edge list -> network at set level"""
    from gcmpy import NetworkNames as NN
    edges, tops, ids, jds = el_columns(el)
    N = len(jds)
    G = sut("Network.G", lambda: net.G)
    if set(G.nodes()) != set(range(N)):
        res.violate("vertex-set-is-not-one-per-joint-degree-entry", missing=sorted(set(range(N)) - set(G.nodes()))[:8],
                    extra=[repr(x) for x in set(G.nodes()) - set(range(N))][:8], N=N, ctx=ctx); return False
    for v in range(N):
        if G.nodes[v].get(NN.JOINT_DEGREE) != jds[v]:
            res.violate("vertex-annotation-differs", vertex=v, got=repr(G.nodes[v]), want=jds[v], ctx=ctx); return False
    rows = defaultdict(list)
    for e, t, i in zip(edges, tops, ids):
        rows[gen.upair(e)].append((t, i))
    got = {gen.upair(e) for e in G.edges()}
    if got != set(rows):
        res.violate("edge-set-differs-from-pairs-in-edge-list", missing=sorted(set(rows) - got)[:6], extra=sorted(got - set(rows))[:6], ctx=ctx); return False
    for p, r in rows.items():
        d = G.edges[p]
        if len(r) == 1:
            res.count("unique_pair_attrs_checked")
            if d.get(NN.TOPOLOGY) != r[0][0] or d.get(NN.MOTIF_IDS) != r[0][1]:
                res.violate("edge-annotation-differs-from-its-row", pair=p, got=repr(dict(d)), want=r[0], ctx=ctx); return False
    return True


def check_reverse(res, net_snapshot, el2, N, ctx):
    from gcmpy import NetworkNames as NN
    nodes, edges = net_snapshot
    e2, t2, i2, j2 = el_columns(el2)
    want_jds = [nodes[v].get(NN.JOINT_DEGREE) for v in range(N)]
    if j2 != want_jds:
        res.violate("reverse-joint-degrees-differ", got=repr(j2)[:200], want=repr(want_jds)[:200], ctx=ctx); return False
    if not (len(e2) == len(t2) == len(i2)):
        res.violate("reverse-columns-have-different-lengths", lens=[len(e2), len(t2), len(i2)], ctx=ctx); return False
    got = Counter((gen.upair(e), t, i) for e, t, i in zip(e2, t2, i2))
    want = Counter((gen.upair(p), d.get(NN.TOPOLOGY), d.get(NN.MOTIF_IDS)) for p, d in edges.items())
    if got != want:
        res.violate("reverse-annotated-edge-set-differs", missing=list((want - got))[:4], extra=list((got - want))[:4], ctx=ctx); return False
    return True


def run_case(case):
    import gcmpy
    if case.get("kind") == "repo-tests":
        from ..repotests import run as _run_repo_tests
        res = Result()
        _run_repo_tests(ID, res)
        res.nontrivial = True
        res.digest = "repo-tests"
        res.sample = {"kind": "repo-tests", "notes": res.notes[:2]}
        return res
    res = Result()
    rng = random.Random(case["seed"])
    cfg, jds, el = make_edge_list(rng, res, case.get("nmax", 40), huge=bool(case.get("huge")))
    res.count("edge_lists")
    cols0 = copy.deepcopy(el_columns(el))
    pairs = Counter(gen.upair(e) for e in cols0[0])
    zero = any(sum(jd) == 0 for jd in jds)
    rep = any(c > 1 for c in pairs.values())
    loop = any(a == b for a, b in pairs)
    touched = {v for e in cols0[0] for v in e}
    stubs_no_edge = any(sum(jd) > 0 and v not in touched for v, jd in enumerate(jds))
    if stubs_no_edge: res.count("vertex_with_stubs_but_no_edge")
    if zero: res.count("with_zero_degree")
    if rep: res.count("with_repeated_pair")
    if loop: res.count("with_self_loop")
    ctx = {"jds": jds if len(jds) <= 25 else "(%d vertices)" % len(jds), "edge_list": cols0[0][:40], "cfg": cfg}
    N = len(jds)
    # forward
    net = sut("EdgeListToNetwork.convert", gcmpy.EdgeListToNetwork.convert, el)
    res.count("forward_conversions")
    if copy.deepcopy(el_columns(el)) != cols0:
        res.violate("forward-conversion-mutated-its-input", ctx=ctx)
    elif check_forward(res, el, net, ctx):
        # reverse, on a monitored graph
        mg = MonitoredGraph(net.G)
        net.G = mg
        snap = snapshot(mg)
        el2 = sut("NetworkToEdgeList.convert", gcmpy.NetworkToEdgeList.convert, net)
        res.count("reverse_conversions")
        res.count("input_graph_mutation_events", len(mg.events))
        if mg.events or not same_snapshot(snap, snapshot(mg)):
            res.violate("reverse-conversion-mutated-its-input", events=mg.events[:5], ctx=ctx)
        elif check_reverse(res, snap, el2, N, ctx):
            # round trips
            net2 = sut("EdgeListToNetwork.convert(round trip)", gcmpy.EdgeListToNetwork.convert, el2)
            res.count("round_trips")
            if not same_snapshot(snapshot(net2.G), snap):
                res.violate("network-round-trip-is-not-the-identity", ctx=ctx)
            elif not rep:
                res.count("exact_round_trip_checked")
                a = Counter((gen.upair(e), t, i) for e, t, i in zip(*cols0[:3]))
                b = Counter((gen.upair(e), t, i) for e, t, i in zip(*el_columns(el2)[:3]))
                if a != b or el_columns(el2)[3] != cols0[3]:
                    res.violate("edge-list-round-trip-is-not-the-identity", missing=list(a - b)[:4], extra=list(b - a)[:4], ctx=ctx)
    if res.verdict == "held" and cols0[0] and rng.random() < 0.4:
        # history on ONE edge-list object: it is converted again after (a) the network from the first conversion was edited in
        # place by its owner, or (b) the edge list itself was changed without changing its lengths; each conversion must answer for
        # the edge list as it is at that moment
        how = rng.choice(["first-network-edited", "topologies-renamed", "rows-replaced"])
        from gcmpy import NetworkNames as NN
        if how == "first-network-edited":
            G1 = net.G
            u, v = rng.choice(list(G1.edges()))
            G1.remove_edge(u, v)
            for a, b in list(G1.edges())[:3]:
                G1.edges[a, b][NN.TOPOLOGY] = "edited-by-the-owner"
        elif how == "topologies-renamed":
            if rng.random() < 0.5:
                el.topologies = [("renamed", t) for t in el.topologies]          # through the setter
            else:
                for i, t in enumerate(list(el.topologies)):                       # in place
                    el.topologies[i] = ("renamed", t)
        else:
            # same number of rows, other pairs: every row's end points are redrawn among the vertices
            Nv = len(el.joint_degrees)
            for i in range(len(el.edge_list)):
                el.edge_list[i] = (rng.randrange(Nv), rng.randrange(Nv))
        res.count("second_conversions_of_one_edge_list_object")
        res.seen("second_conversion_after", how)
        net3 = sut("EdgeListToNetwork.convert (same edge-list object again)", gcmpy.EdgeListToNetwork.convert, el)
        check_forward(res, el, net3, dict(ctx, history=["convert(el)", how, "convert(el)"], edge_list_now=list(el.edge_list)[:40]))
    res.nontrivial = (zero or rep or loop) and len(cols0[0]) >= 2
    res.digest = digest(cols0)
    res.sample = {"jds": jds[:30], "edge_list": cols0[0][:30], "topologies": cols0[1][:30], "motif_id": cols0[2][:30]}
    return res
