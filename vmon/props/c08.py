"""C08 - joint degrees derived from a clique cover count cliques per vertex.

Monitor: `.motif_sizes` and `.jdd` of the cover loader read back (direct and dispatcher paths) and
the downstream pipeline loader -> sample_jds_from_jdd -> GCMAlgorithmFast(clique motifs) observed
through recording build callbacks.  Oracle: recount from the cover.
"""
import numbers
import random
from collections import Counter
from itertools import combinations

import networkx as nx

from ..common import Result, sut, digest
from ..taps import RandomTap, installed

ID = "C08"
RULE = ("clique covers from (a) random clique hypergraphs, (b) real covers produced by gcmpy's own EECC / MPCC on random "
        "graphs, (c) adversarial size sets {2,4},{2,5},{3,5,6},{4},{2,3,4,5,6,7},{2,7},{3,6}; (d) hub covers: one vertex in 250..400 (rarely > 65536) cliques of one size; ids contiguous from 0 or "
        "from 1; overlapping cliques; cliques as lists or tuples; non-trivial = >=2 sizes present and >=1 absent size "
        "below the maximum; distinct = SHA-1 of the concrete cover")
RULE += ("; rounds k-l added: " + 'twin-column covers: every vertex in exactly r cliques of each of two or three sizes (prism-like; r random partitions per size)')
RULE += '; round m: covers with one-vertex cliques (12%)'
ASSUMPTIONS = ["vertex ids contiguous from 0 or 1 and every vertex occurs in the cover (as the property stipulates)",
               "probabilities compared at 1e-12"]
HEADLINE = ["covers", "src_random", "src_eecc", "src_mpcc", "src_adversarial", "src_hub", "src_regular", "one_based", "absent_sizes_ge2", "size_ge9", "vertices_recounted", "pipeline_runs", "pipeline_motifs", "covers_written_into_the_same_list_object"]
REQUIRED = {t: {"src_random": 10, "src_eecc": 5, "src_mpcc": 5, "src_adversarial": 10, "one_based": 10,
                "absent_sizes_ge2": 10, "pipeline_runs": 10, "size_ge9": 10, "hub_count_ge_256": 10} for t in ("quick", "thorough")}


def gen_cases(tier, seed):
    n = 300 if tier == "quick" else 50000
    return [{"seed": seed * 100019 + i} for i in range(n)]


def _contiguous(cover):
    ids = sorted({v for c in cover for v in c})
    m = {v: i for i, v in enumerate(ids)}
    return [[m[v] for v in c] for c in cover]


def build_cover(rng, res):
    src = rng.choice(["random", "random", "adversarial", "adversarial", "eecc", "mpcc", "hub", "regular"])
    import gcmpy
    if src == "regular":
        # every vertex has the same profile (a single joint degree): disjoint k-cliques, a ring of 2-cliques, or both layered
        kind = rng.choice(["disjoint", "ring", "layered", "twin-columns", "twin-columns"])
        m = rng.randint(3, 12)
        if kind == "twin-columns":
            # two or three clique sizes whose per-vertex count columns are IDENTICAL: every vertex lies in exactly r cliques of each size
            # (r random partitions of the vertex set per size; prism = triangles + matching is the smallest member)
            sizes = rng.choice([[2, 3], [2, 4], [3, 4], [2, 3, 4], [2, 5], [3, 6], [2, 3, 6]])
            unit = 1
            for z in sizes:
                unit = unit * z // __import__("math").gcd(unit, z)
            n = unit * rng.randint(1, 3)
            r = rng.choice([1, 1, 2])
            cover = []
            for z in sizes:
                for _ in range(r):
                    perm = list(range(n))
                    rng.shuffle(perm)
                    cover += [perm[i:i + z] for i in range(0, n, z)]
            res.count("covers_with_identical_count_columns_for_different_sizes")
        elif kind == "disjoint":
            s = rng.choice([2, 3, 4, 5])
            cover = [list(range(i * s, (i + 1) * s)) for i in range(m)]
        elif kind == "ring":
            cover = [[i, (i + 1) % m] for i in range(m)]
        else:
            s = rng.choice([3, 4])
            n = m * s
            cover = [list(range(i * s, (i + 1) * s)) for i in range(m)] + [[i, (i + 1) % n] for i in range(n)]
        res.count("src_regular")
        if rng.random() < 0.4:
            cover = [[v + 1 for v in c] for c in cover]
            res.count("one_based")
        rng.shuffle(cover)
        return src, cover
    if src == "hub":
        # one vertex in very many cliques of one size (per-vertex counts beyond 255; every 12th hub beyond 65535)
        big = rng.random() < 0.08
        leaves = rng.randint(66000, 67000) if big else rng.randint(250, 400)
        size = 2 if big else rng.choice([2, 2, 3])
        cover, nxt = [], 1
        for _ in range(leaves):
            cover.append([0] + list(range(nxt, nxt + size - 1)))
            nxt += size - 1
        for _ in range(rng.randint(0, 12)):
            cover.append(rng.sample(range(nxt), rng.choice([2, 3, 4])))
        res.count("src_hub")
        res.count("hub_count_ge_65536" if big else "hub_count_ge_256")
        if rng.random() < 0.4:
            cover = [[v + 1 for v in c] for c in cover]
            res.count("one_based")
        rng.shuffle(cover)
        return src, cover
    if src in ("random", "adversarial"):
        if src == "random":
            sizes = rng.sample(range(2, 8), rng.randint(1, 4)) if rng.random() < 0.7 else rng.sample(range(2, 20), rng.randint(1, 5))
        else:
            sizes = rng.choice([[2, 4], [2, 5], [3, 5, 6], [4], [2, 3, 4, 5, 6, 7], [2, 7], [3, 6], [5], [2, 3], [4, 7], [2, 9], [3, 10], [2, 17], [2, 9, 10], [3, 33], [2, 3, 5, 8, 13, 34], [16, 17], [2, 10]])
        n = rng.randint(max(sizes), max(30, max(sizes) + 6))
        cover = []
        for s in sizes:            # every size really occurs
            cover.append(rng.sample(range(n), s))
        for _ in range(rng.randint(0, 25)):
            cover.append(rng.sample(range(n), rng.choice(sizes)))
        # make ids contiguous without introducing new sizes: relabel
        cover = _contiguous(cover)
    else:
        n = rng.randint(5, 14)
        g = nx.gnp_random_graph(n, rng.choice([0.3, 0.5, 0.7]), seed=rng.randrange(1 << 30))
        g.remove_nodes_from(list(nx.isolates(g)))
        if g.number_of_edges() == 0:
            g = nx.complete_graph(4)
        if src == "eecc":
            e = gcmpy.EECC()
            e.add_edges_from(list(g.edges()))
            e.set_max_clique_size(rng.choice([2, 3, 4, 5]))
            with installed(RandomTap(seed=rng.randrange(1 << 30), keep_log=False), "eecc"):
                cover = [list(c) for c in sut("EECC.get_EECC", e.get_EECC)]
        else:
            with installed(RandomTap(seed=rng.randrange(1 << 30), keep_log=False), "mpcc"):
                h = sut("MPCC", gcmpy.MPCC, g.copy(), rng.choice([0, 0, 3, 4]))
            import ast
            labs = {d["clique"] for _, _, d in h.edges(data=True)}
            cover = [ast.literal_eval(l.split("-")[1]) for l in labs]
        cover = _contiguous(cover)
    if rng.random() < 0.12:
        # 1-cliques: a cover may list single vertices (an isolated vertex of the covered graph, a vertex kept for bookkeeping) - size 1 is a
        # clique size like any other and gets a column of its own
        top = max(v for c in cover for v in c)
        for _ in range(rng.randint(1, 3)):
            if rng.random() < 0.5:
                top += 1
                cover.append([top])
            else:
                cover.append([rng.randint(0, top)])
        res.count("covers_with_one_vertex_cliques")
    res.count("src_" + src)
    one = rng.random() < 0.4
    if one:
        cover = [[v + 1 for v in c] for c in cover]
        res.count("one_based")
    rng.shuffle(cover)
    if rng.random() < 0.3:
        cover = [tuple(c) for c in cover]
    return src, cover


def check_cover(res, cover, rng, path, params=None):
    import gcmpy
    from gcmpy import JointDegreeNames as N
    res.count("covers")
    if params is None:
        params = {}
    else:
        res.count("loads_with_a_params_dict_used_before")      # the caller's own dict, used for an earlier load, with the new cover in it
    params[N.COVER] = cover
    if path != "direct":
        params[N.JOINT_DEGREE_TYPE] = "cover"
    given = dict(params)
    if path == "direct":
        L = sut("JointDegreeCover(params)", gcmpy.JointDegreeCover, params)
    else:
        L = sut("load_joint_degree(cover)", gcmpy.JointDegreeDistribution.load_joint_degree, params)
    if set(params) != set(given):
        res.count("loads_that_added_keys_to_the_caller's_dict")      # not a violation in itself; what matters is the next load from that dict
    sizes = sorted({len(c) for c in cover})
    got_sizes = sut("motif_sizes", lambda: L.motif_sizes)
    if list(got_sizes) != sizes:
        res.violate("motif-sizes-not-the-ascending-distinct-sizes", got=got_sizes, want=sizes, cover=cover); return False
    verts = sorted({v for c in cover for v in c})
    cnt = {v: [0] * len(sizes) for v in verts}
    for c in cover:
        j = sizes.index(len(c))
        for v in c:
            cnt[v][j] += 1
    res.count("vertices_recounted", len(verts))
    want = Counter(tuple(x) for x in cnt.values())
    n = len(verts)
    jdd = sut(".jdd", lambda: L.jdd)
    if not isinstance(jdd, dict):
        res.violate("jdd-not-a-dict", got=repr(jdd)[:200]); return False
    for k in jdd:
        if not (isinstance(k, tuple) and len(k) == len(sizes)):
            res.violate("key-not-a-tuple-with-one-column-per-occurring-size", key=repr(k), sizes=sizes, cover=cover); return False
    if set(jdd) != set(want):
        res.violate("support-differs", got=sorted(jdd), want=sorted(want), sizes=sizes, cover=cover); return False
    for k, c in want.items():
        if abs(jdd[k] - c / n) > 1e-12:
            res.violate("frequency-differs", key=k, got=jdd[k], want=c / n, cover=cover); return False
    # consequence clause: the clique-size profile is recoverable
    for i, s in enumerate(sizes):
        tot = n * sum(p * k[i] for k, p in jdd.items()) / s
        num = sum(1 for c in cover if len(c) == s)
        if abs(tot - num) > 1e-8:
            res.violate("clique-size-profile-not-reproduced", size=s, got=tot, want=num, cover=cover); return False
    absent = [s for s in range(2, max(sizes)) if s not in sizes]
    if len(absent) >= 2:
        res.count("absent_sizes_ge2")
    if max(sizes) >= 9:
        res.count("size_ge9")
    # pipeline: sample and generate with clique motifs of the reported sizes
    if rng.random() < 0.35 and n < 5000:
        res.count("pipeline_runs")
        tap = RandomTap(seed=rng.randrange(1 << 30), keep_log=False)
        with installed(tap, "jd", "fast"):
            n_s = n if rng.random() < 0.5 else rng.choice([1, 2, 3, 5, 7, 10, 37, 100])      # any network size may be sampled
            jds = sut("sample_jds_from_jdd", L.sample_jds_from_jdd, n_s)
            if len(jds) != n_s:
                res.violate("pipeline-sample-length", got=len(jds), want=n_s); return False
            for jd in jds:
                if not (isinstance(jd, tuple) and len(jd) == len(sizes) and all(isinstance(x, numbers.Integral) and not isinstance(x, bool) and x >= 0 for x in jd)):
                    res.violate("pipeline-sample-entry-malformed", entry=repr(jd), cover=cover); return False
            col = [sum(jd[i] for jd in jds) for i in range(len(sizes))]
            for i, s in enumerate(sizes):
                if col[i] % s:
                    res.violate("pipeline-sample-not-divisible", column=i, total=col[i], size=s); return False
            calls = []

            def mk(i):
                def build(vs):
                    calls.append((i, tuple(vs)))
                    return gcmpy.clique_motif(vs)
                return build
            from gcmpy import GCMAlgorithmNames as G
            alg = sut("GCMAlgorithmFast", gcmpy.GCMAlgorithmFast, {G.MOTIF_SIZES: list(got_sizes), G.BUILD_FUNCTIONS: [mk(i) for i in range(len(sizes))],
                                                               G.EDGE_NAMES: ["%d-clique" % s for s in sizes]})
            el = sut("random_clustered_graph", alg.random_clustered_graph, list(jds))
        per = Counter(i for i, _ in calls)
        for i, s in enumerate(sizes):
            res.count("pipeline_motifs", per[i])
            if per[i] != col[i] // s:
                res.violate("pipeline-motif-count", size=s, got=per[i], want=col[i] // s); return False
            if any(len(vs) != s for j, vs in calls if j == i):
                res.violate("pipeline-motif-size", size=s); return False
        if len(el.edge_list) != sum(per[i] * s * (s - 1) // 2 for i, s in enumerate(sizes)):
            res.violate("pipeline-edge-count", got=len(el.edge_list)); return False
    return len(sizes) >= 2 and len(absent) >= 1


def run_case(case):
    res = Result()
    rng = random.Random(case["seed"])
    src, cover = build_cover(rng, res)
    path = rng.choice(["direct", "direct", "dispatcher"])
    import copy
    snapshot = copy.deepcopy(cover)
    my_params = {}
    nt = check_cover(res, cover, rng, path, params=None if rng.random() < 0.5 else my_params)
    if res.verdict == "held" and rng.random() < 0.4:
        # history: the caller's list OBJECT is used again as a buffer for another cover with the same number of cliques (a sweep
        # over seeds / parameters), and a new loader is built from it
        _, other = build_cover(rng, res)
        other = [list(c) for c in other][: len(cover)]
        base_v = max([v for c in other for v in c if isinstance(v, int)], default=0) + 1
        while len(other) < len(cover):
            k = rng.choice([2, 2, 3, 4])
            other.append(list(range(base_v, base_v + k)))
            base_v += k
        # the property speaks about covers over vertices numbered contiguously from 0 or 1: renumber after cutting / padding
        start = rng.choice([0, 1])
        ren = {v: i + start for i, v in enumerate(sorted({v for c in other for v in c}))}
        other = [[ren[v] for v in c] for c in other]
        cover[:] = other
        res.count("covers_written_into_the_same_list_object")
        check_cover(res, cover, rng, path, params=my_params)
    res.nontrivial = bool(nt)
    res.digest = digest(snapshot)
    res.sample = {"source": src, "path": path, "cover": snapshot if len(snapshot) < 60 else snapshot[:60] + ["... %d cliques" % len(snapshot)]}
    return res
