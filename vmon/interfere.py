"""Interference workloads: OTHER public features of the library used in the same process, between two observations of the
feature a check is about.

A property "for every history" includes the histories in which a caller covers a graph, percolates it, builds a loader or a
distribution, generates a network ... and then comes back to the feature under test.  Anything those other features leave behind in
process-wide state - the random source they share with the feature under test, numpy's floating-point error mode, class-level
tables - is then part of what the feature under test sees.

`interfere(rng, tap)` runs a few such calls.  They draw from the SAME tap as the feature under test (the tap is installed on every
gcmpy module that draws random numbers, as the one process-wide `random` module would be), so that a feature which re-seeds or rewinds
"the" random source does it to the source the observed feature uses next.  Exceptions raised by an interfering call are swallowed:
the interfering features have their own checks; here only their after-effects matter.
"""
import networkx as nx

from .taps import installed

ALL_RANDOM_MODULES = ("fast", "custom", "jd", "marginal", "eecc", "mpcc", "drawset", "mcmc", "bond", "network", "algbase", "factory", "main")

_SMALL = None


def _small_graphs():
    global _SMALL
    if _SMALL is None:
        _SMALL = [nx.path_graph(4), nx.cycle_graph(5), nx.complete_graph(4), nx.star_graph(4),
                  nx.Graph([(0, 1), (1, 2), (0, 2), (2, 3), (3, 4), (2, 4)])]
    return _SMALL


def _mpcc(rng):
    import gcmpy
    gcmpy.MPCC(nx.Graph(rng.choice(_small_graphs())), rng.choice([0, 0, 3]))


def _eecc(rng):
    import gcmpy
    e = gcmpy.EECC()
    e.add_edges_from(list(rng.choice(_small_graphs()).edges()))
    e.set_max_clique_size(rng.choice([2, 3, 4]))
    e.get_EECC()


def _percolate(rng):
    import gcmpy
    gcmpy.bond_percolate(nx.Graph(rng.choice(_small_graphs())), rng.choice([0.3, 0.5, 0.9]))


def _sampled_marginal(rng):
    import gcmpy
    from gcmpy import JointDegreeNames as N
    gcmpy.JointDegreeMarginal({N.ARR_FP: [gcmpy.poisson(2.0)], N.MOTIF_SIZES: [2], N.LOW_HIGH_DEGREE_BOUND: [(0, 6)], N.USE_SAMPLING: True, N.N_SAMPLES: 50})


def _distributions(rng):
    import gcmpy
    gcmpy.scale_free_cut_off(rng.choice([2.0, 2.5, 3]), rng.choice([5.0, 20.0, 0.5]))(3)
    gcmpy.power_law(rng.choice([2.5, 3]))(2)


def _split_loaders(rng):
    import gcmpy
    from gcmpy import JointDegreeNames as N
    T = rng.choice([1, 2, 3])
    probs = [1.0 / T] * T
    gcmpy.JointDegreeSplitDegree({N.FP: gcmpy.poisson(2.0), N.PROBS: probs, N.MOTIF_SIZES: list(range(2, T + 2)), N.LOW_HIGH_DEGREE_BOUND: (0, rng.randint(4, 9))})


def _generate(rng):
    import gcmpy
    from gcmpy import GCMAlgorithmNames as G
    alg = gcmpy.GCMAlgorithmFast({G.MOTIF_SIZES: [2, 3], G.BUILD_FUNCTIONS: [gcmpy.clique_motif, gcmpy.clique_motif], G.EDGE_NAMES: ["a", "b"]})
    alg.random_clustered_graph([(1, 1), (1, 1), (2, 1), (0, 0), (2, 0), (0, 0)])


def _drawset(rng):
    import gcmpy.tools.draw_set as ds
    d = ds.DrawSet()
    for e in [(0, 1), (1, 2), (2, 3)]:
        d.add(e)
    d.draw()
    d.remove((1, 2))
    d.draw()


MENU = [("MPCC", _mpcc), ("EECC", _eecc), ("bond_percolate", _percolate), ("sampled JointDegreeMarginal", _sampled_marginal),
        ("distribution factories", _distributions), ("split-degree loaders", _split_loaders), ("GCMAlgorithmFast", _generate), ("DrawSet", _drawset)]


def interfere(rng, tap=None, res=None, only=None, k=None):
    """runs k (default 1..2) other features; returns their names"""
    menu = [m for m in MENU if only is None or m[0] in only]
    picks = [rng.choice(menu) for _ in range(k or rng.randint(1, 2))]
    done = []
    ctx = installed(tap, *ALL_RANDOM_MODULES) if tap is not None else None
    if ctx is not None:
        ctx.__enter__()
    try:
        for name, fn in picks:
            try:
                fn(rng)
            except Exception:      # noqa: BLE001 - the interfering features have their own checks
                if res is not None:
                    res.count("interfering_calls_that_raised")
            done.append(name)
            if res is not None:
                res.count("interfering_calls")
                res.seen("interfering_features", name)
    finally:
        if ctx is not None:
            ctx.__exit__(None, None, None)
    return done
