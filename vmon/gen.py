"""Shared harness for the generator properties (C01-C04): joint-degree-sequence generator, motif
menu with recording build / naming callbacks, algorithm construction through every path, and the
conservation / column oracles that work purely from the call log."""
import numbers
import copy
from collections import Counter
from itertools import combinations

from .common import sut

# --------------------------------------------------------------------------------------------
# motif shapes: vertices -> list of pairs
# --------------------------------------------------------------------------------------------


def shape_edges(shape, vs):
    vs = list(vs)
    n = len(vs)
    if shape == "clique":
        return list(combinations(vs, 2))
    if shape == "cycle":
        return [(vs[i], vs[(i + 1) % n]) for i in range(n)] if n > 2 else [(vs[0], vs[1])]
    if shape == "star":
        return [(vs[0], v) for v in vs[1:]]
    if shape == "path":
        return [(vs[i], vs[i + 1]) for i in range(n - 1)]
    if shape == "chord":
        return [(vs[i], vs[(i + 1) % n]) for i in range(n)] + [(vs[0], vs[2])]
    if shape == "diamond":
        return [(vs[0], vs[1]), (vs[1], vs[2]), (vs[2], vs[3]), (vs[3], vs[0]), (vs[0], vs[2]), (vs[1], vs[3])]
    if shape.startswith("multi"):  # "multi<e>": e edges among the n vertices in a fixed pattern (repeated and reciprocal pairs occur)
        e = int(shape[5:])
        return [(vs[i % n], vs[(2 * i + 1) % n]) for i in range(e)]
    if shape == "double":          # two vertices, exactly two (reciprocal) edges
        return [(vs[0], vs[1]), (vs[1], vs[0])]
    if shape == "empty":
        return []
    raise ValueError(shape)


FAST_MENU = [("clique", 2), ("clique", 2), ("clique", 3), ("clique", 3), ("clique", 4), ("clique", 5), ("cycle", 3), ("cycle", 4),
             ("cycle", 5), ("cycle", 6), ("diamond", 4), ("star", 3), ("star", 4), ("path", 2), ("path", 3), ("path", 4),
             ("chord", 4), ("chord", 5), ("double", 2), ("double", 2), ("cycle", 2)] + \
    [("multi%d" % e, s) for s in (1, 2, 3, 4, 5) for e in (1, 2, 3, 5) if not (s == 1 and e > 2)]

# custom motifs: (orbit sizes, shape over the concatenated vertices, naming style)
CUSTOM_MENU = [
    ((2,), "bare", "bare"), ((2,), "bare", "bare"), ((2,), "path", "list1"), ((3,), "path", "per-edge"), ((3,), "path", "homog"),
    ((3,), "clique", "homog"), ((3,), "clique", "per-edge"), ((1, 2), "star", "per-edge"), ((1, 2), "clique", "homog"),
    ((2, 2), "cycle", "per-edge"), ((2, 2), "diamond", "per-edge"), ((3,), "clique", "generator"), ((2, 1), "path", "iter"), ((4,), "cycle", "generator"), ((2, 2, 1), "chord", "per-edge"), ((1, 1, 1), "clique", "per-edge"),
    ((1, 1), "bare", "bare"), ((1, 3), "star", "homog"), ((4,), "clique", "homog"), ((2, 1), "path", "per-edge"),
    # two vertices, exactly two wrapped edges (the library's cycle_motif on a size-2 slot gives that), one name per edge
    ((2,), "double", "per-edge"), ((1, 1), "double", "per-edge"), ((2,), "double", "homog"),
]


def as_container(vertices, style):
    """how a user callback may hand the drawn stubs on to the library's own motif functions"""
    if style == "tuple":
        return tuple(vertices)
    if style == "ndarray":
        import numpy as np
        return np.asarray(list(vertices))
    return list(vertices)


def normalise_result(es):
    """what a build callback handed back, as a list of pairs + its form: 'list' (a sequence of edges) or 'bare' (one bare pair)"""
    try:
        if len(es) == 2 and not isinstance(es[0], (tuple, list)) and not hasattr(es[0], "__len__"):
            return [(es[0], es[1])], "bare"
    except TypeError:
        pass
    return [tuple(e) for e in es], "list"


class Recorder:
    """Owns the build / naming callbacks handed to the generator: the generator's only side channel."""

    def __init__(self):
        self.calls = []        # (motif index, args tuple, normalised result list of pairs, raw-kind)
        self.name_calls = Counter()
        self.alarms = []
        self.library_calls = 0
        self.decoy = None
        self.on_build = None     # optional hook: called with the motif index at the start of every build callback
        self.arg_as_edge_results = 0

    # fast / network flavour -----------------------------------------------------------------
    def fast_builder(self, k, shape, use_library, lib_arg="list", scratch=False, arg_as_edge=False):
        import gcmpy
        lib = {"clique": gcmpy.clique_motif, "cycle": gcmpy.cycle_motif, "diamond": gcmpy.diamond_motif}
        buf = []

        def build(vertices):
            args = tuple(vertices)
            if self.on_build is not None:
                self.on_build(k)
            kind = "list"
            if arg_as_edge and len(args) == 2 and isinstance(vertices, list) and len(shape_edges(shape, args)) == 1:
                # "a 2-vertex motif has one edge: its vertex pair" - the callback hands back the very list it was given, as the one edge
                # (recorded by value here; what the generator keeps is that list object)
                self.calls.append((k, args, [(args[0], args[1])], "list"))
                self.arg_as_edge_results += 1
                return [vertices]
            if use_library and shape in lib and not (shape == "cycle" and len(args) < 2):
                es = sut(f"{shape}_motif{args}", lib[shape], as_container(vertices, lib_arg))
                es_norm, kind = normalise_result(es)
                self.library_calls += 1
                # the library's own motif generators are part of the generator path: check them against the definition (a "cycle" on
                # two vertices has no agreed definition - one edge or the same edge twice - so only its form is looked at there)
                try:
                    ok = (shape == "cycle" and len(args) == 2 and all(upair(e) == upair(args) for e in es_norm) and 1 <= len(es_norm) <= 2) or \
                        Counter(upair(e) for e in es_norm) == Counter(upair(e) for e in shape_edges(shape, args))
                except Exception:
                    ok = False
                if not ok:
                    self.alarms.append({"motif_function": shape, "args": args, "returned": repr(es)[:300]})
            else:
                es = shape_edges(shape, args)
                es_norm = list(es)
            self.calls.append((k, args, es_norm, kind))
            if scratch:
                # a callback that re-uses ONE result container: cleared and refilled at every call (legitimate: the generator is
                # handed the edges at the moment of the call)
                buf.clear(); buf.extend(es)
                return buf
            return es
        return build

    # custom flavour -------------------------------------------------------------------------
    def custom_builder(self, j, shape, tuple_result, use_library=False, lib_arg="list", scratch=False, arg_as_edge=False):
        import gcmpy
        lib = {"clique": gcmpy.clique_motif, "cycle": gcmpy.cycle_motif, "diamond": gcmpy.diamond_motif}
        buf = []

        def build(vertices):
            args = tuple(vertices)
            if self.on_build is not None:
                self.on_build(j)
            if use_library and shape in lib and not (shape == "cycle" and len(args) < 3):
                # the library's own motif function as the user's build callback (what the documentation suggests)
                es = sut(f"{shape}_motif{args}", lib[shape], as_container(vertices, lib_arg))
                es_norm = [tuple(e) for e in es]
                self.library_calls += 1
                try:
                    ok = Counter(upair(e) for e in es_norm) == Counter(upair(e) for e in shape_edges(shape, args))
                except Exception:
                    ok = False
                if not ok:
                    self.alarms.append({"motif_function": shape, "args": args, "returned": repr(es)[:300]})
                self.calls.append((j, args, es_norm, "list"))
                if scratch:
                    buf.clear(); buf.extend(es)
                    return buf
                return es
            if shape == "bare":
                self.calls.append((j, args, [(args[0], args[1])], "bare"))
                if arg_as_edge and isinstance(vertices, list) and len(vertices) == 2:
                    # "a 2-vertex motif IS its vertex pair": the callback hands back the very list it was given (recorded by value above)
                    self.arg_as_edge_results += 1
                    return vertices
                return (args[0], args[1])
            es = shape_edges(shape, args)
            self.calls.append((j, args, list(es), "list"))
            if scratch and not tuple_result:
                buf.clear(); buf.extend(es)
                return buf
            return tuple(es) if tuple_result else list(es)
        return build

    def custom_namer(self, j, shape, style, nverts, tuple_result):
        nedges = len(shape_edges(shape, list(range(nverts)))) if shape != "bare" else 1

        def names():
            self.name_calls[j] += 1
            if names.oneshot == "generator":
                return (x for x in names.rows)      # a fresh one-shot generator per call
            if names.oneshot == "iter":
                return iter(list(names.rows))
            return names.value
        names.oneshot = None
        if style == "bare":
            names.value = "m%d-bare" % j
            names.rows = ["m%d-bare" % j]
        elif style == "homog" or style == "list1":
            names.rows = ["m%d" % j] * nedges
            names.value = tuple(names.rows) if tuple_result else list(names.rows)
        elif style == "per-edge":
            names.rows = ["m%d-e%d" % (j, i) for i in range(nedges)]
            names.value = tuple(names.rows) if tuple_result else list(names.rows)
        else:   # "generator" / "iter": per-edge names handed over as a one-shot iterable (a fresh one at every call)
            names.rows = ["m%d-g%d" % (j, i) for i in range(nedges)]
            names.value = None
            names.oneshot = style
        return names


# --------------------------------------------------------------------------------------------
# configurations
# --------------------------------------------------------------------------------------------

def make_fast_config(rng, allow_empty=False, distinct=True, shared_names=False):
    T = rng.choice([1, 2, 2, 3, 4])
    menu = list(FAST_MENU)
    motifs = [rng.choice(menu) for _ in range(T)]
    if allow_empty and rng.random() < 0.08:
        motifs[rng.randrange(T)] = ("empty", 1)
    names = ["t%d-%s%d" % (i, m[0], m[1]) for i, m in enumerate(motifs)]
    r = rng.random()
    if r < 0.12:
        names = rng.sample(range(T), T)              # integer labels: 0 is a name like any other
    elif r < 0.17:
        names[rng.randrange(T)] = ""                 # so is the empty string
    elif shared_names and T >= 2 and r < 0.25:
        # two topologies (two joint-degree columns, each with its own size and builder) carry the SAME edge name: the columns are what
        # the generator is configured by, a name is only a label
        i, j = rng.sample(range(T), 2)
        names[j] = names[i]
    elif r < 0.33:
        # names that are members of a str-based Enum (`class Topology(str, Enum)`): strings for every purpose - equal to and hashing
        # like their value - whose str() and format() are NOT their value
        import enum
        E = enum.Enum("Topology", {"T%d" % i: nm for i, nm in enumerate(names)}, type=str)
        names = [E(nm) for nm in names]
    return {"flavour": rng.choice(["fast", "fast", "network"]), "motifs": [list(m) for m in motifs],
            "names": names, "decoy": rng.random() < 0.25, "lib_arg": rng.choice(["list", "list", "list", "tuple", "ndarray"]), "scratch": rng.random() < 0.15,
            "path": rng.choice(["direct", "main-enum", "main-str", "factory"]), "use_library": rng.random() < 0.7, "arg_as_edge": rng.random() < 0.2}


def make_custom_config(rng, force=None):
    M = rng.choice([1, 2, 3, 4])
    motifs = [rng.choice(CUSTOM_MENU) for _ in range(M)]
    special = [m for m in CUSTOM_MENU if m[1] == "bare" or m[2] == "list1" or (m[1] == "path" and sum(m[0]) == 3)]
    if force and not any(m in special for m in motifs):
        motifs[rng.randrange(M)] = rng.choice(special)
    sizes, indices = [], []
    for orbits, _, _ in motifs:
        # the joint-degree columns of a motif's orbits need not be listed in ascending order: the index list says which column
        # feeds which builder slot (in 30% of the multi-orbit motifs the columns are allocated in another order than the slots)
        alloc = list(range(len(orbits)))
        if len(orbits) > 1 and rng.random() < 0.3:
            rng.shuffle(alloc)
        col = {}
        for o in alloc:
            col[o] = len(sizes)
            sizes.append(orbits[o])
        indices.append([col[o] for o in range(len(orbits))])
    return {"flavour": "custom", "motifs": [[list(o), s, n] for o, s, n in motifs], "sizes": sizes, "indices": indices,
            "path": rng.choice(["direct", "main-enum", "main-str", "factory"]), "tuple_result": rng.random() < 0.6,
            "use_library": rng.random() < 0.5, "decoy": rng.random() < 0.25, "lib_arg": rng.choice(["list", "list", "list", "tuple", "ndarray"]),
            "scratch": rng.random() < 0.15, "arg_as_edge": rng.random() < 0.4}


def columns_of(cfg):
    """[(column size, motif index)] per joint-degree column"""
    if cfg["flavour"] == "custom":
        owner = {c: j for j, idx in enumerate(cfg["indices"]) for c in idx}
        return [(s, owner[c]) for c, s in enumerate(cfg["sizes"])]
    return [(m[1], k) for k, m in enumerate(cfg["motifs"])]


def make_jds(rng, cfg, nmax=40, heavy=False, sparse=False):
    """handshake-consistent jds: per motif a number of instances, each orbit column gets instances*size stubs."""
    N = rng.choice([1, 2, 3, 4]) if rng.random() < 0.12 else rng.randint(1, nmax)
    cols = columns_of(cfg)
    nm = len(cfg["motifs"])
    zero_vertices = set()
    if N >= 2 and rng.random() < 0.4:
        zero_vertices = set(rng.sample(range(N), rng.randint(1, max(1, N // 3))))
        if rng.random() < 0.5:
            zero_vertices.add(N - 1)
        if rng.random() < 0.3:
            zero_vertices.add(0)
        if len(zero_vertices) >= N:
            zero_vertices.discard(min(zero_vertices))
    live = [v for v in range(N) if v not in zero_vertices]
    inst = []
    for j in range(nm):
        if rng.random() < 0.1:
            inst.append(0)
        else:
            mean = (12 if heavy else 4) * len(live)
            tot_size = sum(s for s, jj in cols if jj == j)
            top = max(1, min(mean // max(1, tot_size), 60 if heavy else 25))
            if sparse:
                top = max(1, len(live) // (6 * max(1, tot_size)))
            inst.append(rng.randint(1, top))
    style = "uniform" if sparse else rng.choice(["uniform", "uniform", "concentrated", "one-vertex"])
    jds = [[0] * len(cols) for _ in range(N)]
    for c, (s, j) in enumerate(cols):
        stubs = inst[j] * s
        if style == "one-vertex":
            pool = [rng.choice(live)]
        elif style == "concentrated":
            pool = rng.sample(live, max(1, len(live) // 4))
        else:
            pool = live
        for _ in range(stubs):
            jds[rng.choice(pool)][c] += 1
    return [tuple(x) for x in jds], inst


# --------------------------------------------------------------------------------------------
# building the algorithm object through every path, running one generation
# --------------------------------------------------------------------------------------------

def build_algorithm(cfg, rec):
    import gcmpy
    from gcmpy import GCMAlgorithmNames as G, GCMAlgorithmTypes as Ty
    params = {}
    if cfg["flavour"] == "custom":
        params[G.MOTIF_SIZES] = list(cfg["sizes"])
        params[G.MOTIF_INDICES] = [list(i) for i in cfg["indices"]]
        namers = []
        builders = []
        for j, (orbits, shape, style) in enumerate(cfg["motifs"]):
            builders.append(rec.custom_builder(j, shape, cfg["tuple_result"], use_library=cfg.get("use_library", False),
                                               lib_arg=cfg.get("lib_arg", "list"), scratch=cfg.get("scratch", False), arg_as_edge=cfg.get("arg_as_edge", False)))
            namers.append(rec.custom_namer(j, shape, style, sum(orbits), cfg["tuple_result"]))
        params[G.BUILD_FUNCTIONS] = builders
        params[G.EDGE_NAMES] = namers
        cls, ty = gcmpy.GCMAlgorithmCustomMotifs, Ty.MOTIFS
        rec.namers = namers
    else:
        params[G.MOTIF_SIZES] = [m[1] for m in cfg["motifs"]]
        params[G.BUILD_FUNCTIONS] = [rec.fast_builder(k, m[0], cfg["use_library"], lib_arg=cfg.get("lib_arg", "list"), scratch=cfg.get("scratch", False), arg_as_edge=cfg.get("arg_as_edge", False))
                                     for k, m in enumerate(cfg["motifs"])]
        params[G.EDGE_NAMES] = list(cfg["names"])
        if cfg["flavour"] == "network":
            cls, ty = gcmpy.GCMAlgorithmNetwork, Ty.NETWORK
        else:
            cls, ty = gcmpy.GCMAlgorithmFast, Ty.FAST
    path = cfg["path"]
    if cfg.get("decoy"):
        # history: ANOTHER model that differs from this one only in its topology names / naming callbacks (same type, sizes, builder
        # objects, index lists) is configured first through the same entry point and kept alive
        dp = dict(params)
        if cfg["flavour"] == "custom":
            dp[G.EDGE_NAMES] = [(lambda: "decoy-name") for _ in params[G.EDGE_NAMES]]
        else:
            dp[G.EDGE_NAMES] = ["decoy-%d" % i for i in range(len(params[G.EDGE_NAMES]))]
        if path == "direct":
            rec.decoy = sut(f"{cls.__name__}(decoy params)", cls, dp)
        elif path == "factory":
            rec.decoy = sut("GCMAlgorithmFactory.resolve_algorithm(decoy)", gcmpy.GCMAlgorithmFactory.resolve_algorithm, ty, dp)
        else:
            dp[G.GCM_TYPE] = ty if path == "main-enum" else ty.value
            rec.decoy = sut("GCMAlgorithmMain.load_gcm_algorithm(decoy)", gcmpy.GCMAlgorithmMain.load_gcm_algorithm, dp)
    if path == "direct":
        alg = sut(f"{cls.__name__}(params)", cls, params)
    elif path == "factory":
        alg = sut("GCMAlgorithmFactory.resolve_algorithm", gcmpy.GCMAlgorithmFactory.resolve_algorithm, ty, params)
    else:
        params[G.GCM_TYPE] = ty if path == "main-enum" else ty.value
        alg = sut("GCMAlgorithmMain.load_gcm_algorithm", gcmpy.GCMAlgorithmMain.load_gcm_algorithm, params)
    return alg, cls


def upair(e):
    a, b = e
    return (a, b) if a <= b else (b, a)


def is_vertex(x, N):
    return isinstance(x, numbers.Integral) and not isinstance(x, bool) and 0 <= x < N


# --------------------------------------------------------------------------------------------
# oracles over one generation
# --------------------------------------------------------------------------------------------

def oracle_conservation(res, cfg, jds, jds_before, rec, out, tap, ctx):
    """C01: stub-multiset conservation per topology / orbit, from the call log only."""
    N = len(jds_before)
    cols = columns_of(cfg)
    custom = cfg["flavour"] == "custom"
    nm = len(cfg["motifs"])
    by = {j: [c for c in rec.calls if c[0] == j] for j in range(nm)}
    if jds != jds_before:
        res.violate("input-jds-mutated", ctx=ctx); return False
    res.count("library_motif_calls_checked", rec.library_calls)
    if rec.alarms:
        res.violate("library-motif-generator-returned-wrong-edges", first=rec.alarms[0], ctx=ctx); return False
    for j in range(nm):
        mycols = [(c, s) for c, (s, jj) in enumerate(cols) if jj == j]
        if custom:
            mycols = [(c, cols[c][0]) for c in cfg["indices"][j]]        # builder slots follow the index list, not the column order
            if cfg["indices"][j] != sorted(cfg["indices"][j]):
                res.count("motifs_with_non_ascending_orbit_columns")
        size_tot = sum(s for _, s in mycols)
        want_calls = sum(jds_before[v][mycols[0][0]] for v in range(N)) // mycols[0][1]
        res.count("motif_instances", len(by[j]))
        if len(by[j]) != want_calls:
            res.violate("wrong-number-of-motif-instances", motif=j, got=len(by[j]), want=want_calls, ctx=ctx); return False
        off = 0
        for c, s in mycols:
            seg = Counter()
            for _, args, _, _ in by[j]:
                if len(args) != size_tot:
                    res.violate("build-callback-got-wrong-number-of-stubs", motif=j, got=len(args), want=size_tot, args=args, ctx=ctx); return False
                for v in args[off:off + s]:
                    if not is_vertex(v, N):
                        res.violate("vertex-outside-range-in-callback-argument", vertex=repr(v), N=N, ctx=ctx); return False
                    seg[v] += 1
            want = Counter({v: jds_before[v][c] for v in range(N) if jds_before[v][c]})
            if seg != want:
                diff = {v: (seg.get(v, 0), want.get(v, 0)) for v in set(seg) | set(want) if seg.get(v, 0) != want.get(v, 0)}
                res.violate("stub-slots-not-conserved", motif=j, column=c, vertex_got_want=dict(list(diff.items())[:6]), ctx=ctx); return False
            off += s
        res.count("columns_conserved", len(mycols))
    # returned object
    want_rows = Counter()
    for j, args, es, kind in rec.calls:
        for e in es:
            want_rows[upair(e)] += 1
    if cfg["flavour"] == "network":
        G = sut("Network.G", lambda: out.G)
        if set(G.nodes()) != set(range(N)):
            res.violate("network-vertex-set-differs", missing=sorted(set(range(N)) - set(G.nodes()))[:8],
                        extra=[repr(x) for x in set(G.nodes()) - set(range(N))][:8], ctx=ctx); return False
        for v in range(N):
            ann = G.nodes[v].get(_jdkey())
            try:
                # the annotation is the vertex's row of the sequence as the caller gave it (a tuple, a list, a row of a numpy table)
                same = ann is not None and tuple(int(d) for d in ann) == tuple(jds_before[v]) and len(ann) == len(jds_before[v])
            except Exception:      # noqa: BLE001
                same = False
            if not same:
                res.violate("network-vertex-annotation-differs", vertex=v, got=repr(G.nodes[v]), want=jds_before[v], ctx=ctx); return False
        got = {upair(e) for e in G.edges()}
        if got != set(want_rows):
            res.violate("network-edge-set-differs-from-callback-results", missing=sorted(set(want_rows) - got)[:6], extra=sorted(got - set(want_rows))[:6], ctx=ctx); return False
        res.count("network_outputs")
    else:
        jd_out = sut("joint_degrees", lambda: out.joint_degrees)
        def _rows(x):
            # the sequence as carried through may be the caller's own container (list of tuples, numpy table): compared row by row, by value
            return [tuple(int(d) for d in r) for r in x]
        try:
            same = _rows(jd_out) == _rows(jds_before)
        except Exception:      # noqa: BLE001
            same = False
        if not same:
            res.violate("joint-degree-sequence-not-carried-through", got=repr(jd_out)[:200], ctx=ctx); return False
        rows = Counter()
        for e in out.edge_list:
            try:
                a, b = e
            except Exception:
                res.violate("edge-entry-not-a-pair", entry=repr(e), ctx=ctx); return False
            if not (is_vertex(a, N) and is_vertex(b, N)):
                res.violate("vertex-outside-range-in-edge-list", entry=repr(e), N=N, ctx=ctx); return False
            rows[upair((a, b))] += 1
        if rows != want_rows:
            d = {k: (rows.get(k, 0), want_rows.get(k, 0)) for k in set(rows) | set(want_rows) if rows.get(k, 0) != want_rows.get(k, 0)}
            res.violate("edge-list-is-not-the-union-of-callback-results", pair_got_want=dict(list(d.items())[:6]), ctx=ctx); return False
        res.count("edgelist_outputs")
    return True


def _jdkey():
    from gcmpy import NetworkNames
    return NetworkNames.JOINT_DEGREE


def expected_names(cfg, rec, j, nrows):
    if cfg["flavour"] == "custom":
        return list(rec.namers[j].rows)
    return [cfg["names"][j]] * nrows


def oracle_columns(res, cfg, jds_before, rec, out, ctx):
    """C02: the three columns stay parallel; id groups == callback results; names as prescribed."""
    N = len(jds_before)
    if rec.alarms:
        res.violate("library-motif-generator-returned-wrong-edges", first=rec.alarms[0], ctx=ctx); return False
    calls = [c for c in rec.calls if c[2]]          # instances that produced at least one edge
    for c in calls:
        res.count("shape_" + ("bare" if c[3] == "bare" else str(min(len(c[2]), 3)) + ("+" if len(c[2]) >= 3 else "")))
    if cfg["flavour"] == "network":
        from gcmpy import NetworkNames as NN
        G = out.G
        occ = Counter(upair(e) for c in calls for e in c[2])
        # only pairs that occur once in the log have specified attributes
        ids = {}
        for j, args, es, kind in calls:
            names = expected_names(cfg, rec, j, len(es))
            my = None
            for e, nm in zip(es, names):
                p = upair(e)
                if occ[p] != 1:
                    continue
                if not G.has_edge(*p):
                    res.violate("network-edge-missing", pair=p, ctx=ctx); return False
                d = G.edges[p]
                if d.get(NN.TOPOLOGY) != nm:
                    res.violate("network-edge-wrong-name", pair=p, got=repr(d.get(NN.TOPOLOGY)), want=nm, ctx=ctx); return False
                mid = d.get(NN.MOTIF_IDS)
                if my is None:
                    my = mid
                elif mid != my:
                    res.violate("network-motif-split-over-two-ids", pair=p, ids=[repr(my), repr(mid)], ctx=ctx); return False
                res.count("network_edges_checked")
            if my is not None:
                try:
                    if my in ids and ids[my] != id(args):
                        res.violate("network-two-instances-share-an-id", id=repr(my), ctx=ctx); return False
                    ids[my] = id(args)
                except TypeError:
                    res.violate("network-motif-id-unhashable", id=repr(my), ctx=ctx); return False
        return True
    el, tp, mi = out.edge_list, out.topologies, out.motif_id
    total = sum(len(c[2]) for c in calls)
    if not (len(el) == len(tp) == len(mi)):
        res.violate("columns-have-different-lengths", edges=len(el), names=len(tp), ids=len(mi), expected_rows=total, ctx=ctx); return False
    if len(el) != total:
        res.violate("row-count-differs-from-callback-results", rows=len(el), expected_rows=total, ctx=ctx); return False
    groups = {}
    order = []
    for e, nm, i in zip(el, tp, mi):
        if not (isinstance(e, (tuple, list)) and len(e) == 2 and is_vertex(e[0], N) and is_vertex(e[1], N)):
            res.violate("edge-entry-is-not-a-pair-of-vertex-ids", entry=repr(e)[:120], ctx=ctx); return False
        try:
            hash(i)
        except TypeError:
            res.violate("motif-id-unhashable", id=repr(i), ctx=ctx); return False
        if i not in groups:
            groups[i] = []
            order.append(i)
        groups[i].append((upair(e), nm))
    if len(groups) != len(calls):
        res.violate("number-of-motif-ids-differs-from-number-of-instances", ids=len(groups), instances=len(calls), ctx=ctx); return False
    # perfect matching between id groups and calls, found by sorting (no assumption on id values/order)
    def key_of(rows):
        try:
            return sorted((p, repr(nm)) for p, nm in rows)
        except TypeError:
            return sorted((repr(p), repr(nm)) for p, nm in rows)
    want = []
    for j, args, es, kind in calls:
        names = expected_names(cfg, rec, j, len(es))
        want.append(key_of([(upair(e), nm) for e, nm in zip(es, names)]))
    got = [key_of(rows) for rows in groups.values()]
    if sorted(got) != sorted(want):
        # diagnose: pairs right but names wrong?
        gp = sorted(sorted(p for p, _ in g) for g in got)
        wp = sorted(sorted(p for p, _ in g) for g in want)
        clause = "edge-names-differ-from-prescribed" if gp == wp else "id-groups-are-not-the-callback-results"
        bad = [g for g in got if g not in want][:2]
        res.violate(clause, example_groups=bad, example_expected=[w for w in want if w not in got][:2], ctx=ctx); return False
    res.count("id_groups_matched", len(groups))
    return True
