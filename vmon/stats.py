"""Small statistics kit (no scipy in the repository's interpreter): chi-square tail, binomial pmf,
and the fixed two-stage decision protocol of DESIGN.md section 2.1."""
import math


def _gser(a, x):
    ap, s, d = a, 1.0 / a, 1.0 / a
    for _ in range(100000):
        ap += 1.0
        d *= x / ap
        s += d
        if abs(d) < abs(s) * 1e-16:
            break
    return s * math.exp(-x + a * math.log(x) - math.lgamma(a))


def _gcf(a, x):
    tiny = 1e-300
    b = x + 1.0 - a
    c = 1.0 / tiny
    d = 1.0 / b
    h = d
    for i in range(1, 100000):
        an = -i * (i - a)
        b += 2.0
        d = an * d + b
        if abs(d) < tiny:
            d = tiny
        c = b + an / c
        if abs(c) < tiny:
            c = tiny
        d = 1.0 / d
        de = d * c
        h *= de
        if abs(de - 1.0) < 1e-16:
            break
    return math.exp(-x + a * math.log(x) - math.lgamma(a)) * h


def gammq(a, x):
    """regularised upper incomplete gamma Q(a, x)."""
    if x <= 0:
        return 1.0
    if x < a + 1.0:
        return max(0.0, 1.0 - _gser(a, x))
    return min(1.0, _gcf(a, x))


def chi2_sf(stat, dof):
    if dof <= 0:
        return 1.0
    return gammq(dof / 2.0, stat / 2.0)


def chi2_test(observed, expected_p, min_expect=5.0):
    """Pearson chi-square of observed counts (dict cell->count) against exact probabilities
    (dict cell->p, summing to 1 over all cells).  Cells with expectation < min_expect are pooled.
    Returns (p_value, stat, dof, n)."""
    n = sum(observed.values())
    # cells observed but impossible => certain rejection
    for c, k in observed.items():
        if k and expected_p.get(c, 0.0) <= 0.0:
            return 0.0, float("inf"), 0, n
    stat, dof = 0.0, 0
    pool_o, pool_e = 0.0, 0.0
    for c, p in expected_p.items():
        e = n * p
        o = observed.get(c, 0)
        if e < min_expect:
            pool_o += o
            pool_e += e
        else:
            stat += (o - e) ** 2 / e
            dof += 1
    if pool_e >= min_expect:
        stat += (pool_o - pool_e) ** 2 / pool_e
        dof += 1
    elif pool_e > 0 and dof > 0:
        # fold the small remainder into the statistic conservatively (no extra dof)
        stat += (pool_o - pool_e) ** 2 / max(pool_e, min_expect)
    dof -= 1
    if dof <= 0:
        return 1.0, stat, dof, n
    return chi2_sf(stat, dof), stat, dof, n


def binom_pmf(n, p):
    q = 1.0 - p
    out = []
    for k in range(n + 1):
        if p in (0.0, 1.0):
            out.append(1.0 if (k == 0 and p == 0.0) or (k == n and p == 1.0) else 0.0)
        else:
            out.append(math.exp(math.lgamma(n + 1) - math.lgamma(k + 1) - math.lgamma(n - k + 1)
                                + k * math.log(p) + (n - k) * math.log(q)))
    return out


P1, P2 = 1e-4, 1e-6


def two_stage(sample_fn, expected_p, n1, res=None, label="chi2", support_min_expect=20.0):
    """sample_fn(n, stage) -> dict cell->count.  Stage 1 with n1 samples; p >= 1e-4 held.  Otherwise
    escalate once with 4*n1 fresh samples; p2 < 1e-6 => rejected.  Also a support check: every cell
    with expectation >= support_min_expect must occur (in the stage that decides).
    Returns (ok, info)."""
    obs = sample_fn(n1, 1)
    p, stat, dof, n = chi2_test(obs, expected_p)
    info = {"stage": 1, "p": p, "stat": stat, "dof": dof, "n": n}
    missing = [c for c, q in expected_p.items() if n * q >= support_min_expect and obs.get(c, 0) == 0]
    if res is not None:
        res.count(label + "_tests")
    if p >= P1 and not missing:
        return True, info
    if res is not None:
        res.count(label + "_escalations")
    obs = sample_fn(4 * n1, 2)
    p2, stat2, dof2, n2 = chi2_test(obs, expected_p)
    missing2 = [c for c, q in expected_p.items() if n2 * q >= support_min_expect and obs.get(c, 0) == 0]
    info = {"stage": 2, "p1": p, "p": p2, "stat": stat2, "dof": dof2, "n": n2, "missing_cells": [repr(m) for m in missing2[:5]],
            "worst_cells": sorted(((repr(c), obs.get(c, 0), round(n2 * q, 2)) for c, q in expected_p.items()),
                                  key=lambda t: -abs(t[1] - t[2]) / math.sqrt(max(t[2], 1e-9)))[:5]}
    if p2 < P2 or missing2:
        return False, info
    return True, info
