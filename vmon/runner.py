"""Sharding, worker subprocesses, watchdog, verdict folding, evidence, replay files."""
import importlib
import json
import os
import subprocess
import sys
import time
from collections import Counter
from concurrent.futures import ThreadPoolExecutor

from .common import HELD, VIOLATED, INCONCLUSIVE, VERIF_DIR, canon, digest, jdefault, repo_dir
from . import known as knownmod

MAX_WORKERS = int(os.environ.get("VMON_WORKERS", "16"))


def load_prop(pid):
    return importlib.import_module("vmon.props." + pid.lower())


HASH_SEEDS = (0, 101, 202)      # str / bytes hashing differs between worker processes: set and dict-of-set iteration orders are part of the schedule


def hash_class(case):
    """which of the HASH_SEEDS a case runs under: a function of the case alone (its index in the generated list), so that a
    replay - and a run with another number of workers - puts it under the same one"""
    if "_hashseed" in case:
        return HASH_SEEDS.index(case["_hashseed"]) if case["_hashseed"] in HASH_SEEDS else 0
    return int(case.get("_idx", 0)) % len(HASH_SEEDS)


def _run_shard(pid, cases, timeout, hashseed=0):
    """One worker subprocess; returns (list of result dicts, status)."""
    env = dict(os.environ)
    env["PYTHONPATH"] = VERIF_DIR + os.pathsep + os.path.join(VERIF_DIR, ".deps")
    env["PYTHONHASHSEED"] = str(hashseed)
    env["PYTHONDONTWRITEBYTECODE"] = "1"
    payload = json.dumps({"prop": pid, "cases": cases}, default=jdefault)
    t0 = time.time()
    try:
        p = subprocess.run([sys.executable, "-W", "ignore", "-m", "vmon.worker"], input=payload,
                           capture_output=True, text=True, timeout=timeout, env=env, cwd=VERIF_DIR)
        out, err, status = p.stdout, p.stderr, ("ok" if p.returncode == 0 else "crash:%d" % p.returncode)
    except subprocess.TimeoutExpired as e:
        out = e.stdout.decode() if isinstance(e.stdout, bytes) else (e.stdout or "")
        err = e.stderr.decode() if isinstance(e.stderr, bytes) else (e.stderr or "")
        status = "watchdog"
    results = []
    for line in out.splitlines():
        if line.startswith("RESULT "):
            try:
                results.append(json.loads(line[7:]))
            except Exception:
                status = "garbled"
    return results, status, err[-2000:], time.time() - t0


def run_cases(pid, cases, shard_timeout):
    n = len(cases)
    for i, c in enumerate(cases):
        c["_idx"] = i
    w = max(1, min(MAX_WORKERS, n))
    # cases are first split by hash class (each worker process has ONE string-hash seed), then, inside a class, dealt over that
    # class's workers by cost-aware round robin: heavy cases first so they spread
    classes = {}
    for i in range(n):
        classes.setdefault(hash_class(cases[i]), []).append(i)
    total_cost = sum(float(c.get("_cost", 1)) for c in cases) or 1.0
    shards, seeds = [], []
    for hc, idxs in sorted(classes.items()):
        share = sum(float(cases[i].get("_cost", 1)) for i in idxs) / total_cost
        wc = max(1, min(len(idxs), int(round(w * share)) or 1))
        mine = [[] for _ in range(wc)]
        for j, i in enumerate(sorted(idxs, key=lambda i: -float(cases[i].get("_cost", 1)))):
            cases[i]["_hashseed"] = HASH_SEEDS[hc]
            mine[j % wc].append(cases[i])
        shards += mine
        seeds += [HASH_SEEDS[hc]] * wc
    with ThreadPoolExecutor(max_workers=max(1, len(shards))) as ex:
        outs = list(ex.map(lambda a: _run_shard(pid, a[0], shard_timeout, a[1]), zip(shards, seeds)))
    results, problems = {}, []
    for shard, (res, status, err, wall) in zip(shards, outs):
        for r in res:
            results[r["_idx"]] = r
        if status != "ok":
            missing = [c["_idx"] for c in shard if c["_idx"] not in results]
            problems.append({"status": status, "missing": missing, "stderr": err})
    return results, problems


def write_replay(pid, case, result):
    d = os.path.join(VERIF_DIR, "replays", pid)
    if os.environ.get("VMON_NO_EVIDENCE"):
        d = os.path.join("/tmp", "vmon_mut_replays", pid)
    os.makedirs(d, exist_ok=True)
    c = {k: v for k, v in case.items() if not k.startswith("_") or k == "_hashseed"}
    path = os.path.join(d, digest(c) + ".json")
    with open(path, "w") as f:
        json.dump({"property": pid, "case": c, "result": result, "repo": repo_dir()}, f, indent=1,
                  default=jdefault)
    return path


def write_evidence(pid, tier, seed, coverage, assumptions, wall, violations):
    if os.environ.get("VMON_NO_EVIDENCE"):   # mutation driver only: never let a scratch run overwrite evidence
        return None
    os.makedirs(os.path.join(VERIF_DIR, "evidence"), exist_ok=True)
    ev = {"property_id": pid, "tier": tier, "seed": int(seed), "level": "exploration",
          "coverage": coverage, "assumptions": assumptions, "wall_s": round(wall, 2),
          "violations": int(violations)}
    path = os.path.join(VERIF_DIR, "evidence", pid + ".json")
    tmp = path + ".tmp%d" % os.getpid()
    with open(tmp, "w") as f:
        json.dump(ev, f, indent=1, default=jdefault, sort_keys=True)
    os.replace(tmp, path)
    return path


def main_check(pid, tier, seed):
    lines = []
    rc = _main_check(pid, tier, seed, lambda *a: lines.append(" ".join(str(x) for x in a)))
    try:
        sys.stdout.write("\n".join(lines) + "\n")
        sys.stdout.flush()
    except BrokenPipeError:
        try:
            sys.stdout = open(os.devnull, "w")
        except Exception:
            pass
    return rc


def _main_check(pid, tier, seed, print):
    t0 = time.time()
    mod = load_prop(pid)
    cases = mod.gen_cases(tier, seed)
    timeout = getattr(mod, "SHARD_TIMEOUT", {"quick": 600, "thorough": 7200})[tier]
    results, problems = run_cases(pid, cases, timeout)
    known_map, _fixed = knownmod.load()
    known_here = known_map.get(pid, {})

    counters, sets = Counter(), {}
    verdicts = Counter()
    nontrivial_digests, all_digests = set(), set()
    samples, viol_lines, known_obs, harness_errors, notes = [], [], {}, [], []
    nontrivial_samples = []
    for i, case in enumerate(cases):
        r = results.get(i)
        if r is None:
            verdicts["lost"] += 1
            continue
        if r["verdict"] == "harness_error":
            harness_errors.append((case, r))
            continue
        # known-finding classification: a mechanism not listed in the file is a violation
        for k in r.get("known") or []:
            mech = k.get("mechanism")
            if mech in known_here:
                ko = known_obs.setdefault(mech, {"cases": 0, "detail": k.get("detail")})
                ko["cases"] += 1
            else:
                r["verdict"] = VIOLATED
                r["witness"] = {"clause": "unlisted-mechanism:" + str(mech), "detail": k}
        verdicts[r["verdict"]] += 1
        for k, v in (r.get("counters") or {}).items():
            counters[k] += v
        for k, v in (r.get("sets") or {}).items():
            sets.setdefault(k, set()).update(v)
        dg = r.get("digest") or digest({k: v for k, v in case.items() if not k.startswith("_")})
        all_digests.add(dg)
        if r.get("nontrivial"):
            if dg not in nontrivial_digests and len(nontrivial_samples) < 4:
                nontrivial_samples.append(r.get("sample") or {k: v for k, v in case.items() if not k.startswith("_")})
            nontrivial_digests.add(dg)
        elif len(samples) < 1:
            samples.append(r.get("sample") or {k: v for k, v in case.items() if not k.startswith("_")})
        if r["verdict"] == VIOLATED:
            path = write_replay(pid, case, r)
            viol_lines.append((path, r.get("witness")))
        elif r["verdict"] == INCONCLUSIVE:
            notes.extend(r.get("notes") or [])

    inconclusive_reasons = []
    extra = {}
    if hasattr(mod, "finalize"):        # may derive run-level counters from the folded ones
        extra = mod.finalize(counters, sets, tier) or {}
        for why in extra.pop("_inconclusive", []):
            inconclusive_reasons.append(why)
    # run-level reach requirements: a required monitor that never fired => inconclusive
    for key, minimum in (getattr(mod, "REQUIRED", {}) or {}).get(tier, {}).items():
        if counters.get(key, 0) < minimum:
            inconclusive_reasons.append(f"required counter {key}={counters.get(key, 0)} < {minimum}")
    if problems:
        for p in problems:
            inconclusive_reasons.append(f"worker {p['status']}: {len(p['missing'])} cases without result; {p['stderr'][-300:]!r}")
    max_inc = getattr(mod, "MAX_INCONCLUSIVE_FRACTION", 0.0)
    ninc = verdicts[INCONCLUSIVE]
    if ninc > max_inc * max(1, len(cases)):
        inconclusive_reasons.append(f"{ninc} of {len(cases)} cases inconclusive: {notes[:3]}")
    if len(nontrivial_digests) < 2:
        inconclusive_reasons.append("fewer than 2 distinct non-trivial cases")

    wall = time.time() - t0
    coverage = {
        "string_hash_seeds_of_the_worker_processes": list(HASH_SEEDS),
        "evaluations": sum(v for k, v in verdicts.items() if k != "lost"),
        "distinct_nontrivial": len(nontrivial_digests),
        "distinct_cases": len(all_digests),
        "rule": mod.RULE,
        "samples": (nontrivial_samples + samples)[:5] or ["(no case completed)"],
        "verdicts": dict(verdicts),
        "monitor_counters": dict(sorted(counters.items())),
        "distinct_observed": {k: len(v) for k, v in sorted(sets.items())},
        "known_findings_observed": known_obs,
        "budget_or_watchdog_problems": [p["status"] for p in problems],
        "repo": repo_dir(),
    }
    coverage.update(extra)
    write_evidence(pid, tier, seed, coverage, getattr(mod, "ASSUMPTIONS", []), wall, len(viol_lines))

    print(f"[{pid}] tier={tier} seed={seed} cases={len(cases)} verdicts={dict(verdicts)} "
          f"nontrivial_distinct={len(nontrivial_digests)} wall={wall:.1f}s")
    keys = getattr(mod, "HEADLINE", None) or sorted(counters)[:12]
    print(f"[{pid}] observed: " + ", ".join(f"{k}={counters.get(k, 0)}" for k in keys))
    for mech, ko in known_obs.items():
        print(f"KNOWN-FINDING: property={pid} mechanism={mech} {known_here[mech]} "
              f"[observed in {ko['cases']} cases this run; e.g. {canon(ko['detail'])[:300]}]")
    if harness_errors:
        case, r = harness_errors[0]
        print(f"HARNESS-ERROR property={pid} ({len(harness_errors)} cases) first: {r.get('tb', '')[-1500:]}")
    if viol_lines:
        for path, wit in viol_lines[:20]:
            print(f"VIOLATION property={pid} replay={path}")
            print("   witness: " + canon(wit)[:700])
        if len(viol_lines) > 20:
            print(f"   ... and {len(viol_lines) - 20} more violating cases")
        return 1
    if harness_errors:
        return 3
    if inconclusive_reasons:
        for why in inconclusive_reasons[:10]:
            print(f"INCONCLUSIVE property={pid}: {why}")
        return 2
    return 0


def main_replay(pid, path):
    data = json.load(open(path))
    case = data["case"]
    results, problems = run_cases(pid, [dict(case)], 3600)
    r = results.get(0)
    if r is None:
        print(f"INCONCLUSIVE property={pid}: replay produced no result {problems}")
        return 2
    print(json.dumps(r, indent=1, default=jdefault)[:6000])
    known_map, _ = knownmod.load()
    for k in r.get("known") or []:
        if k.get("mechanism") in known_map.get(pid, {}):
            print(f"KNOWN-FINDING: property={pid} mechanism={k['mechanism']} {known_map[pid][k['mechanism']]}")
        else:
            r["verdict"] = VIOLATED
    if r["verdict"] == VIOLATED:
        print(f"VIOLATION property={pid} replay={path}")
        return 1
    if r["verdict"] == "harness_error":
        return 3
    return 0 if r["verdict"] == HELD else 2
