"""pytest plugin: runs the repository's OWN tests with runtime contracts switched on (thorough tier only).

The repository's suite is a realistic workload at sizes the generated workloads do not reach (100 000-vertex
networks, a 5 000-vertex rewiring); its assertions are weak, so the contracts below do the observing.  Which
contracts are installed is chosen by VMON_CONTRACTS=<pid>[,<pid>...]; counters and alarms are written to
VMON_CONTRACT_OUT at session end.  A contract that fails raises MonitorAlarm inside the test (the test then fails)
and is recorded as an alarm for its property.
"""
import json
import os
from collections import Counter

from vmon.common import MonitorAlarm, sanitize

STATE = {"counters": Counter(), "alarms": []}


def alarm(pid, clause, **detail):
    STATE["alarms"].append({"property": pid, "clause": clause, "detail": sanitize(detail)})
    raise MonitorAlarm(clause, **detail)


def _wrap(owner, name, make):
    orig = getattr(owner, name)
    is_static = isinstance(owner.__dict__.get(name), staticmethod)
    new = make(orig)
    setattr(owner, name, staticmethod(new) if is_static else new)


def install(pids):
    import gcmpy
    C = STATE["counters"]

    if {"C01", "C02"} & pids:
        from gcmpy.gcm_algorithm.gcm_algorithm_fast import GCMAlgorithmFast
        from gcmpy.gcm_algorithm.gcm_algorithm_custom_motifs import GCMAlgorithmCustomMotifs

        def make(orig):
            def wrapper(self, jds):
                before = list(jds)
                out = orig(self, jds)
                C["generations_observed"] += 1
                N = len(before)
                el, tp, mi = out.edge_list, out.topologies, out.motif_id
                if "C02" in pids:
                    if not (len(el) == len(tp) == len(mi)):
                        alarm("C02", "columns-have-different-lengths", edges=len(el), names=len(tp), ids=len(mi))
                    for e in el[:200000]:
                        if not (isinstance(e, (tuple, list)) and len(e) == 2 and isinstance(e[0], int) and isinstance(e[1], int)
                                and 0 <= e[0] < N and 0 <= e[1] < N):
                            alarm("C02", "edge-entry-is-not-a-pair-of-vertex-ids", entry=repr(e)[:80])
                    # rows of one id are contiguous and carry one id per motif instance
                    seen, last = set(), object()
                    for i in mi:
                        if i != last:
                            if i in seen:
                                alarm("C02", "motif-id-reused-for-a-later-instance", id=repr(i))
                            seen.add(i)
                            last = i
                    C["rows_observed"] += len(el)
                if "C01" in pids:
                    if list(out.joint_degrees) != before or list(jds) != before:
                        alarm("C01", "joint-degree-sequence-not-carried-through")
                    # conservation, decidable from the output alone when every build function is the library's clique motif:
                    # a vertex in jds[v][k] size-s cliques is an end point of (s-1)*jds[v][k] rows named k (self-loops count twice)
                    fns = getattr(self, "_build_functions", [])
                    names = getattr(self, "_edge_names", [])
                    sizes = getattr(self, "_motif_sizes", [])
                    if isinstance(self, GCMAlgorithmFast) and fns and all(f is gcmpy.clique_motif for f in fns) and len(set(map(str, names))) == len(names):
                        ends = Counter()
                        for (a, b), t in zip(el, tp):
                            ends[(a, t)] += 1
                            ends[(b, t)] += 1
                        for k, (nm, s) in enumerate(zip(names, sizes)):
                            for v in range(N):
                                if ends.get((v, nm), 0) != (s - 1) * before[v][k]:
                                    alarm("C01", "stub-slots-not-conserved", vertex=v, topology=nm, row_ends=ends.get((v, nm), 0), want=(s - 1) * before[v][k])
                        C["vertices_conserved"] += N
                return out
            return wrapper
        _wrap(GCMAlgorithmFast, "random_clustered_graph", make)
        _wrap(GCMAlgorithmCustomMotifs, "random_clustered_graph", make)

    if "C04" in pids:
        from gcmpy.network.edge_list_to_network import EdgeListToNetwork

        def make(orig):
            def wrapper(edgelist):
                net = orig(edgelist)
                C["conversions_observed"] += 1
                N = len(edgelist.joint_degrees)
                if set(net.G.nodes()) != set(range(N)):
                    alarm("C04", "vertex-set-is-not-one-per-joint-degree-entry", N=N, got=net.G.number_of_nodes())
                pairs = {frozenset(e) for e in edgelist.edge_list}
                if {frozenset(e) for e in net.G.edges()} != pairs:
                    alarm("C04", "edge-set-differs-from-pairs-in-edge-list")
                return net
            return wrapper
        _wrap(EdgeListToNetwork, "convert", make)

    if "C05" in pids:
        from gcmpy.joint_degree.joint_degree import JointDegree

        def make(orig):
            def wrapper(self, N):
                out = orig(self, N)
                C["samplings_observed"] += 1
                sizes = self._motif_sizes
                if len(out) != N:
                    alarm("C05", "wrong-length", got=len(out), want=N)
                T = len(sizes)
                col = [0] * T
                for e in out:
                    if not (isinstance(e, tuple) and len(e) == T):
                        alarm("C05", "entry-not-a-tuple", entry=repr(e))
                    for i in range(T):
                        col[i] += e[i]
                for i, s in enumerate(sizes):
                    if col[i] % s:
                        alarm("C05", "column-sum-not-divisible", column=i, total=col[i], size=s)
                C["entries_observed"] += N
                return out
            return wrapper
        _wrap(JointDegree, "sample_jds_from_jdd", make)

    if "C09" in pids:
        from gcmpy.covers.eecc import EECC
        from itertools import combinations

        def make(orig):
            def wrapper(self):
                edges = {frozenset(e) for e in self.G.edges()}
                m0 = self._m0
                cover = orig(self)
                C["covers_observed"] += 1
                seen = Counter()
                for c in cover:
                    if not (2 <= len(c) <= m0):
                        alarm("C09", "cover-element-size-outside-2..m0", element=list(c), m0=m0)
                    for p in combinations(c, 2):
                        if frozenset(p) not in edges:
                            alarm("C09", "cover-element-is-not-a-clique-of-the-input", element=list(c))
                        seen[frozenset(p)] += 1
                if set(seen) != edges or any(v != 1 for v in seen.values()):
                    alarm("C09", "not-an-exact-edge-cover", covered_twice=sum(1 for v in seen.values() if v > 1), uncovered=len(edges - set(seen)))
                C["edges_covered_exactly_once"] += len(edges)
                return cover
            return wrapper
        _wrap(EECC, "get_EECC", make)

    if "C13" in pids:
        from gcmpy.tools.joint_excess_joint_degree import JointExcessJointDegree

        def make(orig):
            def wrapper(self):
                r = orig(self)
                C["extractions_observed"] += 1
                for t, m in r.ejks.items():
                    if m:
                        if abs(sum(m.values()) - 1.0) > 1e-9:
                            alarm("C13", "matrix-does-not-sum-to-one", topology=t, total=sum(m.values()))
                        T = len(next(iter(m))) // 2
                        for k, v in m.items():
                            if abs(m.get(k[T:] + k[:T], 0.0) - v) > 1e-12:
                                alarm("C13", "matrix-not-symmetric", topology=t, key=k)
                        C["matrix_entries_observed"] += len(m)
                return r
            return wrapper
        _wrap(JointExcessJointDegree, "get_ejks", make)

    if "C16" in pids:
        import networkx as nx
        import importlib
        import sys as _sys
        importlib.import_module("gcmpy.message_passing.equations.clique_equation")
        ce = _sys.modules["gcmpy.message_passing.equations.clique_equation"]
        from vmon.exactpoly import percolation_counts, percolation_value
        tables = {}

        def make(orig):
            def wrapper(tau, phi, Hs):
                Hs = list(Hs)
                v = orig(tau, phi, Hs)
                if tau <= 6 and all(isinstance(h, (int, float)) for h in Hs) and isinstance(phi, (int, float)):
                    if tau not in tables:
                        g = nx.complete_graph(tau)
                        tables[tau] = percolation_counts(list(g.nodes()), list(g.edges()), 0)
                    counts, m = tables[tau]
                    w = percolation_value(counts, m, 0, phi, {j + 1: h for j, h in enumerate(Hs)})
                    C["clique_equation_calls_checked"] += 1
                    if abs(v - w) > 1e-9:
                        alarm("C16", "clique-equation-differs(float)", tau=tau, phi=phi, H=Hs, got=v, want=w)
                return v
            return wrapper
        ce.clique_equation = make(ce.clique_equation)
        gcmpy.clique_equation = ce.clique_equation
        try:
            import gcmpy.message_passing.equations as eq
            eq.clique_equation = ce.clique_equation
        except Exception:
            pass

    if "C20" in pids:
        import gcmpy.tools.draw_set as ds
        DS = ds.DrawSet

        # model-based, representation-independent: every DrawSet carries a shadow builtin set maintained by the wrappers; what is compared
        # is the public interface (len always, iteration and membership every 257th operation), never the object's private containers
        def shadow_of(self):
            sh = self.__dict__.get("_vmon_shadow")
            if sh is None:
                sh = self.__dict__["_vmon_shadow"] = set(iter(self))
            return sh

        def check(self, sh):
            C["drawset_invariant_evals"] += 1
            if len(self) != len(sh):
                alarm("C20", "len-differs-from-model", got=len(self), model=len(sh))
            elif C["drawset_invariant_evals"] % 257 == 0:
                items = list(self)
                if len(items) != len(sh) or set(items) != sh or any(e not in self for e in sh):
                    alarm("C20", "iteration-or-membership-differs-from-model", n=len(items), model=len(sh))

        def make_add(orig):
            def wrapper(self, e):
                sh = shadow_of(self)
                r = orig(self, e)
                sh.add(e)
                check(self, sh)
                return r
            return wrapper
        _wrap(DS, "add", make_add)

        def make_remove(orig):
            def wrapper(self, e):
                sh = shadow_of(self)
                present = e in sh
                r = orig(self, e)          # raises for an absent element: nothing to update then
                if not present:
                    alarm("C20", "remove-absent-did-not-raise", element=repr(e))
                sh.discard(e)
                check(self, sh)
                return r
            return wrapper
        _wrap(DS, "remove", make_remove)

        def make_draw(orig):
            def wrapper(self):
                r = orig(self)
                C["draws_observed"] += 1
                if r not in self:
                    alarm("C20", "draw-returned-non-member", got=repr(r))
                return r
            return wrapper
        _wrap(DS, "draw", make_draw)


def pytest_configure(config):
    pids = set(filter(None, os.environ.get("VMON_CONTRACTS", "").split(",")))
    if pids:
        install(pids)


def pytest_sessionfinish(session, exitstatus):
    out = os.environ.get("VMON_CONTRACT_OUT")
    if out:
        with open(out, "w") as f:
            json.dump({"counters": dict(STATE["counters"]), "alarms": STATE["alarms"], "exitstatus": int(exitstatus)}, f)
