"""vmon - runtime monitors for gcmpy (see /verif/DESIGN.md)."""
