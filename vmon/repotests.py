"""Runs (part of) the repository's own test suite with runtime contracts on - see contracts_plugin.py."""
import json
import os
import subprocess
import sys
import tempfile

from .common import VERIF_DIR, repo_dir

FILES = {
    "C01": ["test/gcm_algorithm", "test/tools/test_mixing_patterns.py"],
    "C02": ["test/gcm_algorithm", "test/tools/test_mixing_patterns.py"],
    "C04": ["test/network", "test/gcm_algorithm/test_gcm_algorithm_network.py", "test/tools/test_mixing_patterns.py"],
    "C05": ["test/gcm_algorithm/test_gcm_algorithm_main.py", "test/tools/test_mixing_patterns.py", "test/joint_degree"],
    "C09": ["test/covers/test_covers.py"],
    "C13": ["test/tools/test_mixing_patterns.py", "test/tools/test_MCMC_rewiring.py"],
    "C16": ["test/message_passing/test_equations.py"],
    "C20": ["test/tools/test_MCMC_rewiring.py"],
}


def run(pid, res, timeout=1500):
    """folds counters into res; an alarm raised by a contract is a violation of `pid`"""
    repo = repo_dir()
    files = [f for f in FILES.get(pid, []) if os.path.exists(os.path.join(repo, f))]
    if not files:
        res.count("repo_tests_unavailable")
        return
    fd, out = tempfile.mkstemp(prefix="vmon_contracts_", suffix=".json")
    os.close(fd)
    env = dict(os.environ, PYTHONPATH=VERIF_DIR + os.pathsep + os.path.join(VERIF_DIR, ".deps"), VMON_CONTRACTS=pid, VMON_CONTRACT_OUT=out,
               PYTHONDONTWRITEBYTECODE="1")
    try:
        p = subprocess.run([sys.executable, "-W", "ignore", "-m", "pytest", "-q", "-p", "no:cacheprovider", "-p", "vmon.contracts_plugin",
                            "--timeout=900"] + files, cwd=repo, env=env, capture_output=True, text=True, timeout=timeout)
        tail = (p.stdout.strip().splitlines() or [""])[-1]
        try:
            data = json.load(open(out))
        except Exception:
            res.inconclusive("repository tests with contracts produced no report: " + tail[-200:])
            return
    except subprocess.TimeoutExpired:
        res.inconclusive("repository tests with contracts: watchdog")
        return
    finally:
        try:
            os.unlink(out)
        except OSError:
            pass
    res.count("repo_test_runs_with_contracts")
    for k, v in data["counters"].items():
        res.count("repo_" + k, v)
    res.notes.append("repo tests: " + tail)
    mine = [a for a in data["alarms"] if a["property"] == pid]
    if mine:
        res.violate("contract-fired-in-the-repository's-own-tests:" + mine[0]["clause"], alarms=len(mine), first=mine[0]["detail"], tests=files, pytest=tail)
    elif sum(data["counters"].values()) == 0:
        res.inconclusive("contracts for %s were never evaluated by the repository's tests" % pid)
