"""Graph families for the cover properties (C09, C10): atlas graphs, G(n,p), planted clique structures."""
import networkx as nx

_ATLAS = None


def atlas(max_nodes, need_no_isolates=True):
    global _ATLAS
    if _ATLAS is None:
        _ATLAS = nx.graph_atlas_g()
    out = []
    for i, g in enumerate(_ATLAS):
        if g.number_of_nodes() == 0 or g.number_of_nodes() > max_nodes or g.number_of_edges() == 0:
            continue
        if need_no_isolates and any(d == 0 for _, d in g.degree()):
            continue
        out.append(i)
    return out


def atlas_graph(i):
    global _ATLAS
    if _ATLAS is None:
        _ATLAS = nx.graph_atlas_g()
    return nx.Graph(_ATLAS[i])


def planted(rng):
    k = rng.choice(["chain", "share", "wheel", "complete", "two-triangles-edge", "book", "k4-ring", "chain", "share", "big-share-edge"])
    g = nx.Graph()
    if k == "chain":
        s = rng.choice([3, 4, 5])
        m = rng.randint(2, 4)
        nxt = 0
        prev = None
        for _ in range(m):
            vs = (prev or []) + list(range(nxt, nxt + s - (2 if prev else 0)))
            nxt = max(vs) + 1
            g.add_edges_from((a, b) for i, a in enumerate(vs) for b in vs[i + 1:])
            prev = vs[-2:]
    elif k == "share":
        s = rng.choice([3, 4, 5, 6])
        a = list(range(s))
        b = list(range(1, s + 1))
        for vs in (a, b):
            g.add_edges_from((x, y) for i, x in enumerate(vs) for y in vs[i + 1:])
    elif k == "big-share-edge":
        # two cliques of 5..6 vertices sharing exactly one edge
        s1, s2 = rng.choice([5, 6]), rng.choice([5, 6])
        a = list(range(s1))
        b = [0, 1] + list(range(s1, s1 + s2 - 2))
        for vs in (a, b):
            g.add_edges_from((x, y) for i, x in enumerate(vs) for y in vs[i + 1:])
    elif k == "wheel":
        g = nx.wheel_graph(rng.randint(4, 9))
    elif k == "complete":
        g = nx.complete_graph(rng.randint(2, 8))
    elif k == "two-triangles-edge":
        g.add_edges_from([(0, 1), (1, 2), (0, 2), (1, 3), (2, 3)])
        if rng.random() < 0.5:
            g.add_edges_from([(3, 4), (2, 4)])
    elif k == "book":
        pages = rng.randint(2, 5)
        g.add_edge(0, 1)
        for p in range(pages):
            g.add_edges_from([(0, 2 + p), (1, 2 + p)])
    else:
        r = rng.randint(2, 4)
        for i in range(r):
            vs = [2 * i, 2 * i + 1, (2 * i + 2) % (2 * r), (2 * i + 3) % (2 * r)]
            g.add_edges_from((x, y) for j, x in enumerate(vs) for y in vs[j + 1:] if x != y)
    if rng.random() < 0.5 and g.number_of_edges():
        # pendant triangles (sometimes K4s) sitting on edges of the structure: small intact maximal cliques next to big overlapping ones
        nxt = max(g.nodes()) + 1
        for _ in range(rng.randint(1, 4)):
            a, b = rng.choice(list(g.edges()))
            new = [nxt] if rng.random() < 0.8 else [nxt, nxt + 1]
            nxt += len(new)
            vs = [a, b] + new
            g.add_edges_from((x, y) for j, x in enumerate(vs) for y in vs[j + 1:])
        k += "+pendants"
    return k, g


def clique_union(rng, ncliques=None):
    """many (8..24) mostly edge-disjoint cliques of sizes 2..5 strung together by shared vertices, plus a small cluster of
    overlapping cliques: sparse, 20..70 vertices, with far more maximal cliques than a small hash table holds"""
    g = nx.Graph()
    k = ncliques or rng.randint(8, 24)
    nxt = 0
    prev = None
    for _ in range(k):
        s = rng.choice([2, 3, 3, 4, 4, 5])
        vs = list(range(nxt, nxt + s))
        nxt += s
        if prev is not None and rng.random() < 0.8:
            vs[0] = rng.choice(prev)          # share one vertex with the previous clique (edge-disjoint)
        g.add_edges_from((a, b) for i, a in enumerate(vs) for b in vs[i + 1:])
        prev = vs
    # overlapping cluster
    base = list(range(nxt, nxt + rng.randint(4, 6)))
    for _ in range(rng.randint(2, 4)):
        vs = rng.sample(base, rng.randint(3, min(4, len(base))))
        g.add_edges_from((a, b) for i, a in enumerate(vs) for b in vs[i + 1:])
    if prev:
        g.add_edge(prev[-1], base[0])
    return g


def random_graph(rng, nmax=14, allow_isolates=False, large=0.0):
    """(description, nx.Graph) - simple, loop-free, vertices relabelled 0..n-1 in random order"""
    r = rng.random()
    if rng.random() < large:
        if rng.random() < 0.6:
            g = clique_union(rng); d = "clique-union(%d vertices)" % g.number_of_nodes()
        else:
            n = rng.randint(20, 40)
            p = rng.choice([0.06, 0.1, 0.15])
            g = nx.gnp_random_graph(n, p, seed=rng.randrange(1 << 30)); d = "gnp(%d,%.2f)" % (n, p)
    elif r < 0.35:
        n = rng.randint(2, nmax)
        p = rng.choice([0.2, 0.35, 0.5, 0.7, 0.9])
        g = nx.gnp_random_graph(n, p, seed=rng.randrange(1 << 30))
        d = "gnp(%d,%.2f)" % (n, p)
    elif r < 0.7:
        ids = atlas(6)
        i = rng.choice(ids)
        g = atlas_graph(i)
        d = "atlas#%d" % i
    else:
        d, g = planted(rng)
    if not allow_isolates:
        g.remove_nodes_from([v for v, deg in list(g.degree()) if deg == 0])
    if g.number_of_edges() == 0:
        g = nx.Graph([(0, 1)])
        d = "K2"
    vs = list(g.nodes())
    perm = list(range(len(vs)))
    rng.shuffle(perm)
    g = nx.relabel_nodes(g, {v: perm[i] for i, v in enumerate(vs)})
    h = nx.Graph()
    # vertex insertion order and edge orientation are free in the input: make them hostile (not sorted) half of the time
    nodes = sorted(g.nodes())
    es = [tuple(sorted(e)) for e in g.edges()]
    rng.shuffle(es)
    if rng.random() < 0.5:
        rng.shuffle(nodes)
        es = [e if rng.random() < 0.5 else (e[1], e[0]) for e in es]
        if rng.random() < 0.5:
            nodes = []          # vertices appear in the order the edges mention them
    h.add_nodes_from(nodes)
    h.add_edges_from(es)
    return d, h
