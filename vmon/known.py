"""KNOWN_FINDINGS.txt: committed, never written at run time.

  fixed: property=<id> <commit> <what failed>           -- suppresses nothing
  known: property=<id> mechanism=<key> <what fails>     -- matched by mechanism key only
"""
import os
import re
from .common import VERIF_DIR

PATH = os.path.join(VERIF_DIR, "KNOWN_FINDINGS.txt")


def load(path=PATH):
    known, fixed = {}, []
    if not os.path.exists(path):
        return known, fixed
    for line in open(path, encoding="utf-8"):
        line = line.strip()
        if not line or line.startswith("#"):
            continue
        m = re.match(r"known:\s+property=(\S+)\s+mechanism=(\S+)\s+(.*)$", line)
        if m:
            known.setdefault(m.group(1), {})[m.group(2)] = m.group(3)
            continue
        m = re.match(r"fixed:\s+property=(\S+)\s+(\S+)\s+(.*)$", line)
        if m:
            fixed.append((m.group(1), m.group(2), m.group(3)))
    return known, fixed
