"""Worker: runs a list of cases of one property in a fresh process against the working tree."""
import json
import sys
import time
import traceback

from .common import SutRaised, BudgetStop, MonitorAlarm, Result, VIOLATED, import_repo, jdefault


def run_one(mod, case):
    t0 = time.time()
    try:
        res = mod.run_case(case)
        out = res.to_json()
    except SutRaised as e:
        r = Result()
        r.violate("exception-from-code-under-test", where=e.where, error=str(e.exc)[:500],
                  type=type(e.exc).__name__, traceback=e.tb)
        r.nontrivial = True
        out = r.to_json()
    except MonitorAlarm as e:
        r = Result()
        r.violate(e.clause, **e.detail)
        r.nontrivial = True
        out = r.to_json()
    except BudgetStop as e:
        r = Result()
        r.inconclusive("budget stop escaped: %s" % e)
        out = r.to_json()
    except Exception:
        out = {"verdict": "harness_error", "tb": traceback.format_exc()[-4000:]}
    out["_idx"] = case.get("_idx", 0)
    out["wall"] = round(time.time() - t0, 3)
    return out


def main():
    payload = json.load(sys.stdin)
    import_repo()
    import importlib
    mod = importlib.import_module("vmon.props." + payload["prop"].lower())
    for case in payload["cases"]:
        out = run_one(mod, case)
        try:
            line = json.dumps(out, default=jdefault)
        except Exception:
            line = json.dumps({"verdict": "harness_error", "tb": "result not serialisable: " + traceback.format_exc()[-1500:],
                               "_idx": case.get("_idx", 0)})
        sys.stdout.write("RESULT " + line + "\n")
        sys.stdout.flush()


if __name__ == "__main__":
    main()
