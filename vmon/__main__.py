"""CLI:  python -m vmon <Cxx> <quick|thorough>   |   python -m vmon <Cxx> --replay <file>"""
import os
import sys

from . import runner


def main(argv):
    if len(argv) < 2:
        print(__doc__)
        return 64
    pid = argv[0].upper()
    if argv[1] == "--replay":
        return runner.main_replay(pid, argv[2])
    tier = argv[1]
    if tier not in ("quick", "thorough"):
        print("tier must be quick or thorough")
        return 64
    try:
        seed = int(os.environ.get("VERIF_SEED", "0"))
    except ValueError:
        seed = 0
    return runner.main_check(pid, tier, seed)


if __name__ == "__main__":
    sys.exit(main(sys.argv[1:]))
