"""ExactPoly: sparse multivariate polynomials over Q used as *shadow values* - they are passed
into gcmpy's percolation equations in place of floats, so the unmodified code computes an exact
polynomial identity instead of a number.  Plus the brute-force bond-percolation oracle (2^|E|
edge states, bitmask component search) written from the definition in the property."""
from fractions import Fraction
from math import comb

NONINTEGRAL_FLOATS = [0]   # how often a non-integral float met a polynomial (reported in evidence)


class ShadowUnsupported(TypeError):
    """the code under test applied an operation to a shadow value that exact polynomials cannot follow (division by a
    polynomial, a polynomial exponent, ...).  This says nothing about the code: the polynomial part of the oracle is then not
    applicable to this tree and the numeric part decides."""


class P:
    __slots__ = ("t",)

    def __init__(self, t=None):
        self.t = t or {}

    @staticmethod
    def var(name):
        return P({((name, 1),): Fraction(1)})

    @staticmethod
    def const(c):
        if isinstance(c, P):
            return c
        if isinstance(c, float):
            if not c.is_integer():
                NONINTEGRAL_FLOATS[0] += 1
            c = Fraction(c)          # exact
        c = Fraction(c)
        return P({(): c}) if c else P()

    def __add__(s, o):
        o = P.const(o)
        t = dict(s.t)
        for m, c in o.t.items():
            v = t.get(m, 0) + c
            if v:
                t[m] = v
            else:
                t.pop(m, None)
        return P(t)
    __radd__ = __add__

    def __neg__(s):
        return P({m: -c for m, c in s.t.items()})

    def __sub__(s, o):
        return s + (-P.const(o))

    def __rsub__(s, o):
        return P.const(o) + (-s)

    def __mul__(s, o):
        o = P.const(o)
        t = {}
        for m1, c1 in s.t.items():
            d1 = dict(m1)
            for m2, c2 in o.t.items():
                d = dict(d1)
                for v, e in m2:
                    d[v] = d.get(v, 0) + e
                m = tuple(sorted(d.items()))
                v = t.get(m, 0) + c1 * c2
                if v:
                    t[m] = v
                else:
                    t.pop(m, None)
        return P(t)
    __rmul__ = __mul__

    def __pow__(s, n):
        if isinstance(n, float):
            if not n.is_integer():
                raise ShadowUnsupported("non-integral exponent on a polynomial: %r" % n)
            n = int(n)
        if isinstance(n, Fraction):
            if n.denominator != 1:
                raise ShadowUnsupported("non-integral exponent on a polynomial: %r" % n)
            n = int(n)
        if isinstance(n, P):
            raise ShadowUnsupported("polynomial used as an exponent")
        if n < 0:
            raise ShadowUnsupported("negative exponent on a polynomial")
        r = P.const(1)
        b = s
        while n:
            if n & 1:
                r = r * b
            b = b * b
            n >>= 1
        return r

    def __rpow__(s, base):
        raise ShadowUnsupported("polynomial used as an exponent")

    def __truediv__(s, o):
        if isinstance(o, P):
            if list(o.t) == [()]:
                o = o.t[()]
            else:
                raise ShadowUnsupported("division by a non-constant polynomial")
        if isinstance(o, float):
            o = Fraction(o)
        return P({m: c / Fraction(o) for m, c in s.t.items()})

    def __rtruediv__(s, o):
        if list(s.t) == [()]:
            return P.const(o) * P({(): 1 / s.t[()]})
        raise ShadowUnsupported("division by a non-constant polynomial")

    def __abs__(s):
        if not s.t:
            return P()
        if list(s.t) == [()]:
            return P({(): abs(s.t[()])})
        raise ShadowUnsupported("absolute value of a non-constant polynomial")

    def __format__(s, spec):
        # formatting a value (a log line, a cache key built from text) is not arithmetic a polynomial can follow
        if spec:
            raise ShadowUnsupported("format(%r) of a polynomial" % spec)
        return str(s)

    def __lt__(s, o):
        raise ShadowUnsupported("ordering comparison on a polynomial")
    __le__ = __gt__ = __ge__ = __lt__

    def __eq__(s, o):
        try:
            return s.t == P.const(o).t
        except Exception:
            return NotImplemented

    def __ne__(s, o):
        r = s.__eq__(o)
        return r if r is NotImplemented else not r

    def __hash__(s):
        return hash(frozenset(s.t.items()))

    def __bool__(s):
        return bool(s.t)

    def __float__(s):
        if not s.t:
            return 0.0
        if list(s.t) == [()]:
            return float(s.t[()])
        raise TypeError("polynomial is not a constant")

    def __repr__(s):
        return " + ".join(f"{c}*{dict(m)}" for m, c in sorted(s.t.items())) or "0"

    def nterms(s):
        return len(s.t)

    def subs(s, values):
        """numeric evaluation: values = {var: number}"""
        tot = 0.0
        for m, c in s.t.items():
            x = float(c)
            for v, e in m:
                x *= values[v] ** e
            tot += x
        return tot

    def abs_subs(s, values):
        """sum of |coefficient| * prod |value|^e: conditioning bound for float evaluation of this polynomial"""
        tot = 0.0
        for m, c in s.t.items():
            x = abs(float(c))
            for v, e in m:
                x *= abs(values[v]) ** e
            tot += x
        return tot

    def diff_sample(s, o, k=3):
        o = P.const(o)
        keys = [m for m in set(s.t) | set(o.t) if s.t.get(m, 0) != o.t.get(m, 0)]
        return [{"monomial": dict(m), "got": str(s.t.get(m, 0)), "want": str(o.t.get(m, 0))} for m in sorted(keys)[:k]]


def percolation_counts(nodes, edges, root):
    """count[(k occupied edges, frozenset(component of root))] over all 2^|E| occupation states"""
    nodes = list(nodes)
    idx = {v: i for i, v in enumerate(nodes)}
    E = [(idx[a], idx[b]) for a, b in edges]
    m = len(E)
    r = idx[root]
    counts = {}
    popcnt = [bin(x).count("1") for x in range(1 << min(m, 16))]
    for mask in range(1 << m):
        comp = 1 << r
        changed = True
        while changed:
            changed = False
            for j in range(m):
                if mask >> j & 1:
                    a, b = E[j]
                    ba, bb = comp >> a & 1, comp >> b & 1
                    if ba != bb:
                        comp |= (1 << a) | (1 << b)
                        changed = True
        k = popcnt[mask & 0xFFFF] + (popcnt[mask >> 16] if m > 16 else 0)
        key = (k, comp)
        counts[key] = counts.get(key, 0) + 1
    out = {}
    for (k, comp), c in counts.items():
        members = frozenset(nodes[i] for i in range(len(nodes)) if comp >> i & 1)
        out[(k, members)] = c
    return out, m


def percolation_poly(nodes, edges, root, uvar=lambda v: "u%s" % v, phi="phi", common_u=None):
    """E[ prod_{j in comp(root)\\root} u_j ] as an exact polynomial in phi and the u's."""
    counts, m = percolation_counts(nodes, edges, root)
    t = {}
    for (k, members), c in counts.items():
        others = [v for v in members if v != root]
        if common_u is None:
            umon = [(uvar(v), 1) for v in others]
        else:
            umon = [(common_u, len(others))] if others else []
        # phi^k (1-phi)^(m-k) = sum_i C(m-k,i) (-1)^i phi^(k+i)
        for i in range(m - k + 1):
            coef = Fraction(c * comb(m - k, i) * (-1) ** i)
            e = k + i
            mon = tuple(sorted(umon + ([(phi, e)] if e else [])))
            v = t.get(mon, 0) + coef
            if v:
                t[mon] = v
            else:
                t.pop(mon, None)
    return P(t)


def percolation_abs(counts, m, root, phi, uvals):
    """sum of the absolute values of the terms of the expectation: the conditioning of any evaluation order (all counts are
    positive, so every correct way of grouping the terms has intermediate sums bounded by this)"""
    tot = 0.0
    for (k, members), c in counts.items():
        x = c * abs(phi) ** k * abs(1.0 - phi) ** (m - k)
        for v in members:
            if v != root:
                x *= abs(uvals[v])
        tot += x
    return tot


def percolation_value(counts, m, root, phi, uvals):
    """numeric evaluation of the same expectation from a precomputed count table"""
    tot = 0.0
    for (k, members), c in counts.items():
        x = c * phi ** k * (1.0 - phi) ** (m - k)
        for v in members:
            if v != root:
                x *= uvals[v]
        tot += x
    return tot
