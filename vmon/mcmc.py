"""Per-swap monitor for MarkovChainMonteCarloRewiring (C11, C12).

The input network's graph is a MonitoredGraph (role 'input'); rewire() works on its copy(), which is a
MonitoredGraph too (role 'working') whose add_edge / remove_edge calls are an event stream.  The class
attribute `swap_condition` is wrapped: every entry is a quiescent point (the previous accepted swap has
been fully applied), where the monitor drains the events since the last entry and checks that swap
against shadow state kept from the start: edge -> (topology, motif id), motif id -> edge set,
(vertex, topology) -> degree.  DrawSet.draw and swap_condition calls are counted against a logical
budget; past it BudgetStop unwinds rewire() (the loop has no termination guarantee of its own).
"""
import copy
from collections import Counter, defaultdict

import networkx as nx

from .common import BudgetStop, sut
from .graphs import MonitoredGraph, snapshot, same_snapshot

K1 = "corner-swap-keeps-departing-motif-id"


def fs(e):
    return frozenset(e)


class SwapMonitor:
    def __init__(self, res, G_in, names, target, budget_props, budget_draws, ctx):
        from gcmpy import NetworkNames as NN
        self.NN = NN
        self.res = res
        self.G_in = G_in
        self.names = list(names)
        self.target = target            # {name: {a+b: weight}}
        self.ctx = ctx
        self.snap_in = snapshot(G_in)
        self.budget_props = budget_props
        self.budget_draws = budget_draws
        self.props = 0
        self.last_accept_at = 0
        self.stall_window = 10 ** 9
        self.draws = 0
        self.accepted = 0
        self.pending = None
        self.stopped = None
        self.sig = Counter()
        self.shape_fail = Counter()     # signature -> number of accepted swaps that broke a motif's shape
        self.shape_fail_example = None
        self.violation = None
        self.created = 0
        self.forbidden_checked = 0
        self.reach = Counter()
        self.foreign = []
        self.tap = None
        self.force_zero_draw_rate = 0.0
        import random as _r
        self.coin = _r.Random(12345)
        # shadow state
        self.attr = {}
        self.motif = defaultdict(set)
        self.deg = Counter()
        for u, v, d in G_in.edges(data=True):
            self.attr[fs((u, v))] = (d[NN.TOPOLOGY], d[NN.MOTIF_IDS])
            self.motif[d[NN.MOTIF_IDS]].add(fs((u, v)))
            self.deg[(u, d[NN.TOPOLOGY])] += 1
            self.deg[(v, d[NN.TOPOLOGY])] += 1
        self.deg0 = Counter(self.deg)
        self.motif0 = {k: set(v) for k, v in self.motif.items()}
        self.touched_ids = set()
        self.nedges = G_in.number_of_edges()
        self.jd = {v: tuple(G_in.nodes[v][NN.JOINT_DEGREE]) for v in G_in.nodes()}

    # -- helpers ---------------------------------------------------------------------------
    def fail(self, clause, **detail):
        if self.violation is None:
            self.violation = (clause, detail)

    def motif_graph(self, edges):
        g = nx.Graph()
        g.add_edges_from(tuple(e) if len(e) == 2 else (tuple(e)[0], tuple(e)[0]) for e in edges)
        return g

    def same_shape(self, before, after):
        if len(before) != len(after):
            return False
        a, b = self.motif_graph(before), self.motif_graph(after)
        if sorted(d for _, d in a.degree()) != sorted(d for _, d in b.degree()):
            return False
        return nx.is_isomorphic(a, b)

    def excess(self, v, name):
        i = self.names.index(name)
        jd = list(self.jd[v])
        jd[i] -= 1
        return tuple(jd)

    def allowed(self, u, v, name):
        t = self.target.get(name, {})
        a, b = self.excess(u, name), self.excess(v, name)
        return t.get(a + b, 0) > 0 or t.get(b + a, 0) > 0

    def adopt(self, G):
        """the graph rewire() works on.  The property only asks that the *given* network is left alone, not how the working copy
        is made: G.copy() of a MonitoredGraph is monitored already; a plain nx.Graph built some other way (nx.Graph(G), a rebuilt
        edge list, ...) is adopted here by re-classing it, so its mutations are logged from now on; working on the given graph
        itself is followed too (its first mutation is the violation, not the choice of object)."""
        if isinstance(G, MonitoredGraph):
            if G is not self.G_in and G.role != "working":
                G.role = "working"
            if G is not self.G_in and not any(c is G for c in self.G_in.children):
                self.G_in.children.append(G)
            return True
        if type(G) is nx.Graph:
            G.__class__ = MonitoredGraph
            G.events = []
            G.role = "working"
            G.children = []
            G._quiet = False
            self.G_in.children.append(G)
            self.reach["adopted_working_graphs"] += 1
            return True
        if not any(c is G for c in self.foreign):
            self.foreign.append(G)
        return False

    # -- quiescent point -------------------------------------------------------------------
    def settle(self, G):
        NN = self.NN
        p, self.pending = self.pending, None
        ev = list(G.events)
        del G.events[:]
        if G is self.G_in:
            if ev:
                self.fail("the-given-network-was-modified", events=ev[:5])
            return
        if p is None:
            if ev:
                self.fail("working-graph-changed-without-an-accepted-swap", events=ev[:6])
            return
        u0, v0, e0s, e1s, old = p
        adds = [(e[1], e[2], e[3]) for e in ev if e[0] == "add_edge"]
        rems = [fs((e[1], e[2])) for e in ev if e[0] == "remove_edge"]
        other = [e for e in ev if e[0] not in ("add_edge", "remove_edge")]
        if other:
            self.fail("working-graph-changed-other-than-by-edge-swaps", events=other[:4]); return
        corner = [fs(e) for e in e0s + e1s]
        if sorted(map(sorted, rems)) != sorted(map(sorted, corner)):
            self.fail("removed-edges-are-not-exactly-the-two-corners", removed=[sorted(r) for r in rems], corners=[sorted(c) for c in corner]); return
        for a, b, existed in adds:
            if a == b:
                self.fail("self-loop-created", edge=(a, b), u0=u0, v0=v0, e0s=e0s, e1s=e1s); return
            if existed:
                self.fail("existing-edge-added-again(collapsed-duplicate)", edge=(a, b), u0=u0, v0=v0); return
        newe = [fs((a, b)) for a, b, _ in adds]
        if len(set(newe)) != len(newe) or len(newe) != len(corner):
            self.fail("number-of-created-edges-differs-from-number-removed", created=[sorted(e) for e in newe], removed=[sorted(c) for c in corner]); return
        if G.number_of_edges() != self.nedges:
            self.fail("edge-count-changed", got=G.number_of_edges(), want=self.nedges); return
        # read the new attributes back, update shadow state
        got = {}
        for e in newe:
            a, b = tuple(e)
            d = G.edges[a, b]
            got[e] = (d.get(NN.TOPOLOGY), d.get(NN.MOTIF_IDS))
        # C12(1): every created edge joins an allowed pairing - judged for the topology the created edge CARRIES, from the joint degrees
        # the vertices were given; decided before the C11 clauses below, so that a swap which breaks both is still a witness for this one
        for e, (t, i) in got.items():
            a, b = tuple(e)
            self.created += 1
            self.forbidden_checked += 1
            if t in self.target and not self.allowed(a, b, t):
                self.fail("created-edge-joins-a-pairing-the-target-forbids", edge=(a, b), topology=t,
                          pairing=[self.excess(a, t), self.excess(b, t)]); return
        ids_touched = {old[fs(e)][1] for e in e0s + e1s} | {i for _, i in got.values()}
        before = {i: set(self.motif.get(i, ())) for i in ids_touched}
        touched = set()
        unknown = [e for e in corner if e not in self.attr]
        if unknown:
            self.fail("swap-removes-an-edge-that-is-not-an-edge-of-the-given-network(as far as the swaps so far explain)",
                      edge=[repr(v) for v in unknown[0]], u0=repr(u0), v0=repr(v0)); return
        for e in corner:
            t, i = self.attr.pop(e)
            self.motif[i].discard(e)
            for w in e:
                self.deg[(w, t)] -= 1
                touched.add((w, t))
        for e, (t, i) in got.items():
            self.attr[e] = (t, i)
            self.motif[i].add(e)
            for w in e:
                self.deg[(w, t)] += 1
                touched.add((w, t))
        for k in touched:
            if self.deg[k] != self.deg0[k]:
                self.fail("per-topology-degree-of-a-vertex-changed", vertex=k[0], topology=k[1], got=self.deg[k], want=self.deg0[k],
                          u0=u0, v0=v0, e0s=e0s, e1s=e1s); return
        # signature (classification only)
        id0 = {old[fs(e)][1] for e in e0s}
        id1 = {old[fs(e)][1] for e in e1s}
        at_u0 = {e: got[e] for e in got if u0 in e and v0 not in e}
        at_v0 = {e: got[e] for e in got if v0 in e and u0 not in e}
        exp_v0 = Counter(old[fs(e)][0] for e in e0s)     # ideal: v0 takes over u0's corner (topologies of e0s, ids of e0s)
        exp_u0 = Counter(old[fs(e)][0] for e in e1s)
        tops_ok = Counter(t for t, _ in at_v0.values()) == exp_v0 and Counter(t for t, _ in at_u0.values()) == exp_u0 \
            and len(at_u0) + len(at_v0) == len(got)
        ids_u0 = {i for _, i in at_u0.values()}
        ids_v0 = {i for _, i in at_v0.values()}
        if tops_ok and ids_v0 == id0 and ids_u0 == id1 and id0 != id1:
            sig = "ideal"
        elif tops_ok and ids_u0 == id0 and ids_v0 == id1 and id0 != id1:
            sig = "K1"
        else:
            sig = "other"
        self.sig[sig] += 1
        self.accepted += 1
        if sig == "other":
            self.fail("new-corner-edges-do-not-take-over-topology-and-motif-id-of-the-edges-they-replace",
                      u0=u0, v0=v0, old={str(sorted(k)): v for k, v in old.items()}, new={str(sorted(k)): v for k, v in got.items()}); return
        # shape clause where it can be decided independently of K1: both motifs are still exactly as given (no earlier swap touched
        # them), so whatever motif ids the created edges carry, SOME way of giving half of them to each motif must give both motifs
        # their shape back (the ideal swap does: the partner vertex simply takes the focal vertex's place).  A swap that moved only part
        # of a corner, or paired corners of different positions of the motif, leaves no such way.
        if len(id0) == 1 and len(id1) == 1 and id0 != id1 and not ((id0 | id1) & self.touched_ids):
            i0, i1 = next(iter(id0)), next(iter(id1))
            M0, M1 = self.motif0.get(i0, set()), self.motif0.get(i1, set())
            R0, R1 = M0 - {fs(e) for e in e0s}, M1 - {fs(e) for e in e1s}
            new = list(got)
            n0 = len(M0) - len(R0)
            from itertools import combinations as _comb
            from math import comb as _ncomb
            self.reach["swaps_between_two_untouched_motifs"] += 1
            if len(new) == (len(M0) - len(R0)) + (len(M1) - len(R1)) and _ncomb(len(new), n0) <= 1000:
                ideal = frozenset(e for e in new if v0 in e and u0 not in e)
                cands = [ideal] + [frozenset(c) for c in _comb(new, n0)]
                ok = False
                for A in cands:
                    if len(A) != n0:
                        continue
                    B = set(new) - A
                    if self.same_shape(M0, R0 | A) and self.same_shape(M1, R1 | B):
                        ok = True
                        break
                self.reach["untouched_motif_swaps_shape_decided"] += 1
                if not ok:
                    self.fail("swap-between-two-motifs-untouched-so-far-leaves-no-assignment-of-the-created-edges-that-gives-both-motifs-their-shape-back",
                              u0=u0, v0=v0, removed_at_u0=e0s, removed_at_v0=e1s, created=[sorted(e, key=repr) for e in new],
                              motif_of_u0=[sorted(e, key=repr) for e in M0], motif_of_v0=[sorted(e, key=repr) for e in M1]); return
        self.touched_ids |= id0 | id1 | {i for _, i in got.values()}
        # shape check (the property's clause, swap by swap)
        broke = False
        for i in ids_touched:
            if not self.same_shape(before.get(i, set()), self.motif.get(i, set())):
                broke = True
        if broke:
            self.shape_fail[sig] += 1
            if self.shape_fail_example is None:
                self.shape_fail_example = {"signature": sig, "u0": u0, "v0": v0, "e0s": e0s, "e1s": e1s,
                                           "old": {str(sorted(k)): v for k, v in old.items()}, "new": {str(sorted(k)): v for k, v in got.items()}}

    # -- wrappers installed on the classes --------------------------------------------------
    def wrap_swap_condition(self, orig):
        mon = self

        def wrapper(obj, G, e0s, e1s, u0, v0):
            NN = mon.NN
            if not mon.adopt(G):
                # a working graph the monitor cannot follow swap by swap (not an nx.Graph): the end-of-run checks still decide
                mon.reach["unmonitored_proposals"] += 1
                return orig(obj, G, e0s, e1s, u0, v0)
            mon.settle(G)
            if mon.violation is not None:
                raise BudgetStop("violation")
            mon.props += 1
            if mon.props > mon.budget_props:
                mon.stopped = "proposal budget"
                raise BudgetStop("proposals")
            if mon.props - mon.last_accept_at > mon.stall_window:
                mon.stopped = "stalled: no accepted swap in %d proposals" % mon.stall_window
                raise BudgetStop("stalled")
            old = {}
            for e in list(e0s) + list(e1s):
                d = G.edges[e]
                old[fs(e)] = (d[NN.TOPOLOGY], d[NN.MOTIF_IDS])
            # recompute the numerator's fate for reach evidence (C12): missing key / zero weight
            try:
                miss = zero = False
                by_t = defaultdict(list)
                for e in e1s:
                    by_t[old[fs(e)][0]].append(e)
                for e in e0s:
                    t = old[fs(e)][0]
                    if not by_t[t]:
                        break
                    e1 = by_t[t][-1]
                    u1 = e[1] if e[0] == u0 else e[0]
                    v1 = e1[1] if e1[0] == v0 else e1[0]
                    for a, b in ((u0, v1), (v0, u1)):
                        k = mon.excess(a, t) + mon.excess(b, t)
                        if k not in mon.target.get(t, {}):
                            miss = True
                        elif mon.target[t][k] == 0:
                            zero = True
                if miss:
                    mon.reach["numerator_missing_key"] += 1
                if zero:
                    mon.reach["numerator_zero_weight"] += 1
                if (miss or zero) and mon.tap is not None and mon.force_zero_draw_rate and mon.coin.random() < mon.force_zero_draw_rate:
                    # rare RNG outcome, forced: if this proposal's fate is put to a uniform draw at all, the draw is exactly 0.0
                    mon.tap.pending_random = 0.0
                    mon.reach["zero_draws_armed_on_forbidden_proposals"] += 1
            except Exception:
                pass
            try:
                r = orig(obj, G, e0s, e1s, u0, v0)
            finally:
                if mon.tap is not None:
                    if mon.tap.pending_random is None and mon.reach.get("zero_draws_armed_on_forbidden_proposals"):
                        pass
                    mon.tap.pending_random = None
            if r:
                mon.last_accept_at = mon.props
                mon.pending = (u0, v0, [tuple(e) for e in e0s], [tuple(e) for e in e1s], old)
                # (where the accepted swap is applied - inside the predicate or after it - is not prescribed: the events are
                # settled at the next quiescent point either way)
            return r
        return wrapper

    def wrap_suitable(self, orig):
        mon = self

        def wrapper(obj, G, u0, v0, e0s, e1s):
            try:
                o0 = {e[1] if e[0] == u0 else e[0] for e in e0s}
                o1 = {e[1] if e[0] == v0 else e[0] for e in e1s}
                if u0 in o1 or v0 in o0:
                    mon.reach["self_loop_corner_proposals"] += 1
                if u0 == v0:
                    mon.reach["same_focal_vertex_proposals"] += 1
            except Exception:
                pass
            mon.reach["suitability_calls"] += 1
            return orig(obj, G, u0, v0, e0s, e1s)
        return wrapper

    def wrap_draw(self, orig):
        mon = self

        def wrapper(obj):
            mon.draws += 1
            if mon.draws > mon.budget_draws:
                mon.stopped = "draw budget"
                raise BudgetStop("draws")
            # invariant at a hook: the drawable set and its index agree (cheap check on every draw, full sweep every 509th)
            ed, hm = getattr(obj, "_edges", None), getattr(obj, "_edge_hashmap", None)
            if ed is not None and hm is not None:
                mon.reach["drawset_invariant_evals"] += 1
                bad = len(ed) != len(hm) or len(ed) != mon.nedges
                if not bad and mon.draws % 509 == 0:
                    mon.reach["drawset_full_sweeps"] += 1
                    bad = any(hm.get(e) != i for i, e in enumerate(ed))
                if bad:
                    mon.fail("drawable-edge-set-inconsistent-with-the-working-graph", len_list=len(ed), len_index=len(hm), edges=mon.nedges)
                    raise BudgetStop("violation")
            r = orig(obj)
            return r
        return wrapper

    # -- end of run ------------------------------------------------------------------------
    def final(self, H, returned):
        """H: the working graph (returned, or recovered from the input's children after a budget stop)"""
        NN = self.NN
        if H is not None and isinstance(H, MonitoredGraph):
            self.settle(H)
        if self.violation is not None:
            return
        if self.G_in.events or not same_snapshot(self.snap_in, snapshot(self.G_in)):
            self.fail("the-given-network-was-modified", events=list(self.G_in.events)[:5]); return
        if H is None:
            return
        if set(H.nodes()) != set(self.G_in.nodes()):
            self.fail("vertex-set-changed"); return
        for v in self.G_in.nodes():
            if dict(H.nodes[v]) != dict(self.G_in.nodes[v]):
                self.fail("vertex-annotation-changed", vertex=v, got=repr(dict(H.nodes[v])), want=repr(dict(self.G_in.nodes[v]))); return
        if H.number_of_edges() != self.nedges:
            self.fail("edge-count-changed", got=H.number_of_edges(), want=self.nedges); return
        if nx.number_of_selfloops(H):
            self.fail("self-loop-in-returned-graph", loops=list(nx.selfloop_edges(H))[:4]); return
        deg = Counter()
        motif = defaultdict(set)
        for u, v, d in H.edges(data=True):
            t, i = d.get(NN.TOPOLOGY), d.get(NN.MOTIF_IDS)
            deg[(u, t)] += 1
            deg[(v, t)] += 1
            motif[i].add(fs((u, v)))
        if deg != self.deg0:
            bad = [k for k in set(deg) | set(self.deg0) if deg.get(k, 0) != self.deg0.get(k, 0)][:4]
            self.fail("per-topology-degrees-differ-in-returned-graph", examples=[(k, deg.get(k, 0), self.deg0.get(k, 0)) for k in bad]); return
        # new edges of the returned graph vs the target (C12(1) without relying on the event stream)
        for u, v, d in H.edges(data=True):
            if fs((u, v)) not in self.motif0_edges():
                t = d.get(NN.TOPOLOGY)
                if t in self.target and not self.allowed(u, v, t):
                    self.fail("returned-graph-contains-a-new-edge-on-a-forbidden-pairing", edge=(u, v), topology=t); return
        broken = [i for i in set(motif) | set(self.motif0) if not self.same_shape(self.motif0.get(i, set()), motif.get(i, set()))]
        self.final_broken = len(broken)
        self.final_motifs = len(self.motif0)
        if broken:
            self.final_broken_example = {"motif_id": broken[0], "before": [sorted(e) for e in self.motif0.get(broken[0], ())],
                                         "after": [sorted(e) for e in motif.get(broken[0], ())]}

    def motif0_edges(self):
        if not hasattr(self, "_m0e"):
            self._m0e = set().union(*self.motif0.values()) if self.motif0 else set()
        return self._m0e


class installed_monitor:
    """context manager: wrap the three class attributes for the duration of one rewire()"""

    def __init__(self, mon):
        self.mon = mon

    def __enter__(self):
        import gcmpy.tools.markov_chain_monte_carlo_rewiring as M
        import gcmpy.tools.draw_set as DS
        self.M, self.DS = M, DS
        cls = M.MarkovChainMonteCarloRewiring
        self.saved = []
        self.hooks = 0
        for owner, name, wrap in ((cls, "swap_condition", self.mon.wrap_swap_condition), (cls, "is_edge_choice_suitable", self.mon.wrap_suitable),
                                  (DS.DrawSet, "draw", self.mon.wrap_draw)):
            if hasattr(owner, name):
                orig = getattr(owner, name)
                self.saved.append((owner, name, orig))
                setattr(owner, name, wrap(orig))
                self.hooks += 1
        return self

    def __exit__(self, *a):
        for owner, name, orig in reversed(self.saved):
            setattr(owner, name, orig)
        return False


def reference_mixing(G, names):
    """C13's reference extractor (from the definition), so that a defect in JointExcessJointDegree can neither mask nor fake C12."""
    from gcmpy import NetworkNames as NN
    out = {}
    for i, t in enumerate(names):
        es = [(u, v) for u, v, d in G.edges(data=True) if d[NN.TOPOLOGY] == t]
        m = defaultdict(float)
        for u, v in es:
            a = list(G.nodes[u][NN.JOINT_DEGREE]); a[i] -= 1
            b = list(G.nodes[v][NN.JOINT_DEGREE]); b[i] -= 1
            a, b = tuple(a), tuple(b)
            m[a + b] += 0.5 / len(es)
            m[b + a] += 0.5 / len(es)
        out[t] = dict(m)
    return out


def l1(mix, target, names):
    d = 0.0
    for t in names:
        ks = set(mix.get(t, {})) | set(target.get(t, {}))
        d += sum(abs(mix.get(t, {}).get(k, 0.0) - target.get(t, {}).get(k, 0.0)) for k in ks)
    return d
