"""Shared small pieces: verdict objects, calling into the code under test, hashing."""
import hashlib
import json
import os
import sys
import traceback

HELD, VIOLATED, INCONCLUSIVE = "held", "violated", "inconclusive"

VERIF_DIR = os.path.dirname(os.path.dirname(os.path.abspath(__file__)))


def repo_dir() -> str:
    return os.environ.get("GCMPY_VERIF_REPO", "/repo")


def import_repo():
    """Make gcmpy importable from the working tree under test (never cached bytecode)."""
    r = repo_dir()
    if r not in sys.path:
        sys.path.insert(0, r)
    sys.dont_write_bytecode = True


class SutRaised(Exception):
    """The code under test raised on an input inside the property's quantifier."""

    def __init__(self, where, exc):
        self.where = where
        self.exc = exc
        self.tb = "".join(traceback.format_exception(type(exc), exc, exc.__traceback__))[-3000:]
        super().__init__(f"{where}: {type(exc).__name__}: {exc}")


class MonitorAlarm(Exception):
    """Raised by a monitor that runs *inside* the code under test (contract, hook)."""

    def __init__(self, clause, **detail):
        self.clause = clause
        self.detail = detail
        super().__init__(clause)


class BudgetStop(BaseException):
    """Raised by monitors to unwind a loop in the code under test that has no bound."""


def sut(where, fn, *a, **k):
    """Call into gcmpy.  Any ordinary exception (and `raise "string"`, which is a TypeError)
    becomes SutRaised; harness bugs elsewhere stay ordinary exceptions."""
    try:
        return fn(*a, **k)
    except (BudgetStop, MonitorAlarm):
        raise
    except Exception as e:  # noqa
        raise SutRaised(where, e)


class Violation(Exception):
    def __init__(self, clause, **detail):
        self.clause = clause
        self.detail = detail
        super().__init__(clause)


def jdefault(o):
    if isinstance(o, (set, frozenset)):
        return sorted(o, key=repr)
    if isinstance(o, tuple):
        return list(o)
    if isinstance(o, bytes):
        return o.hex()
    try:
        import numpy as np
        if isinstance(o, np.integer):
            return int(o)
        if isinstance(o, np.floating):
            return float(o)
    except Exception:
        pass
    return repr(o)


def sanitize(o, depth=0):
    """Make anything JSON-serialisable (tuple keys, sets, numpy scalars, Fractions, arbitrary objects)."""
    if depth > 12:
        return repr(o)[:200]
    if o is None or isinstance(o, (bool, int, str)):
        return o
    if isinstance(o, float):
        return o if o == o and o not in (float("inf"), float("-inf")) else repr(o)
    if isinstance(o, dict):
        if all(isinstance(k, str) for k in o):
            return {k: sanitize(v, depth + 1) for k, v in o.items()}
        return [[sanitize(k, depth + 1), sanitize(v, depth + 1)] for k, v in o.items()]
    if isinstance(o, (list, tuple)):
        return [sanitize(x, depth + 1) for x in o]
    if isinstance(o, (set, frozenset)):
        return [sanitize(x, depth + 1) for x in sorted(o, key=repr)]
    return jdefault(o)


def canon(obj) -> str:
    return json.dumps(sanitize(obj), sort_keys=True, default=jdefault, separators=(",", ":"))


def digest(obj) -> str:
    return hashlib.sha1(canon(obj).encode()).hexdigest()[:16]


def short(obj, n=600):
    s = canon(obj)
    return obj if len(s) <= n else s[:n] + "...(%d chars)" % len(s)


class Result:
    """Outcome of one monitored case."""

    def __init__(self):
        self.verdict = HELD
        self.nontrivial = False
        self.digest = None
        self.sample = None
        self.counters = {}
        self.witness = None
        self.known = []        # [{"mechanism":..., "detail":...}]
        self.notes = []
        self.sets = {}         # name -> set of hashable tokens (distinct things observed)

    def count(self, key, n=1):
        self.counters[key] = self.counters.get(key, 0) + n

    def seen(self, name, token):
        self.sets.setdefault(name, set()).add(token)

    def violate(self, clause, ctx=None, **detail):
        if ctx:
            detail = {**{k: v for k, v in ctx.items() if k not in detail}, **detail}
        if self.verdict != VIOLATED:
            self.verdict = VIOLATED
            self.witness = {"clause": clause, "detail": detail}
        self.count("violations_observed")

    def inconclusive(self, why):
        if self.verdict == HELD:
            self.verdict = INCONCLUSIVE
        self.notes.append(why)

    def to_json(self):
        return sanitize({
            "verdict": self.verdict, "nontrivial": bool(self.nontrivial), "digest": self.digest,
            "sample": self.sample, "counters": self.counters, "witness": self.witness,
            "known": self.known, "notes": self.notes[:5],
            "sets": {k: sorted(map(str, v))[:4000] for k, v in self.sets.items()},
        })


def tight_stack_call(fn, headroom):
    """fault injection without touching the code under test: runs fn() with only `headroom` frames of interpreter stack left, so
    that a call which nests deeper is aborted by RecursionError somewhere inside the library.  Returns ("aborted", None) or
    ("completed", value); any other exception is reported as ("raised", exc).  The recursion limit is restored in every case."""
    import sys
    depth = 0
    f = sys._getframe()
    while f is not None:
        depth += 1
        f = f.f_back
    old = sys.getrecursionlimit()
    try:
        sys.setrecursionlimit(depth + max(3, headroom))
        try:
            return "completed", fn()
        except RecursionError:
            return "aborted", None
        except BudgetStop:
            raise
        except Exception as e:      # noqa: BLE001 - whatever the tight stack provoked is not a verdict by itself
            return "raised", e
    finally:
        sys.setrecursionlimit(old)
