"""RandomTap: a logging / scripting stand-in for the `random` module as gcmpy sees it.

gcmpy draws all its randomness from the `random` module, looked up at call time either as
`random.<fn>` (modules that `import random`) or as a module global bound by
`from random import choice/shuffle`.  Replacing those globals gives an event log of every
draw, deterministic replay, and the ability to force any *possible* outcome.
"""
import random as _random
import importlib
from collections import Counter


class ScriptExhausted(Exception):
    pass


class InjectedFault(Exception):
    """raised by a tap at a chosen draw: a failpoint at an existing call site of the code under test (the caller of the library
    function catches it, as an application would catch any exception escaping from a library call)"""


class RandomTap:
    """Quacks like the random module.  Modes per call kind:
       script[kind]  : list of outcomes consumed in order (see each method for the meaning)
       preset[kind]  : name of an adversarial but possible outcome
       otherwise     : pass-through to a private seeded generator.
    """

    def __init__(self, seed=0, script=None, preset=None, strict=False, keep_log=True, on_event=None):
        self.on_event = on_event
        self.rng = _random.Random(seed)
        self.script = {k: list(v) for k, v in (script or {}).items()}
        self.pos = Counter()
        self.preset = dict(preset or {})
        self.strict = strict
        self.keep_log = keep_log
        self.log = []
        self.counts = Counter()
        self.fallbacks = Counter()
        self.other = Counter()
        self.recent_bits = {}
        self.pending_random = None
        self.fail_at = None
        self.reseeds = []

    # -- helpers ---------------------------------------------------------------------
    def _next(self, kind):
        s = self.script.get(kind)
        if s is None:
            return None
        i = self.pos[kind]
        if i >= len(s):
            if self.strict:
                raise ScriptExhausted(kind)
            self.fallbacks[kind] += 1
            return None
        self.pos[kind] += 1
        return s[i]

    def _ev(self, kind, summary, result):
        self.counts[kind] += 1
        if self.fail_at is not None:
            self.fail_at -= 1
            if self.fail_at <= 0:
                self.fail_at = None
                raise InjectedFault("injected at a %s() call" % kind)
        if self.on_event is not None:
            self.on_event(self, kind)
        if self.keep_log:
            self.log.append((kind, summary, result))

    # -- API used by gcmpy -----------------------------------------------------------
    def shuffle(self, x):
        before = list(x)
        perm = self._next("shuffle")
        if perm is not None:
            # scripted: new[i] = old[perm[i]]
            assert sorted(perm) == list(range(len(x))), "bad scripted permutation"
            x[:] = [before[i] for i in perm]
        else:
            p = self.preset.get("shuffle")
            if p == "identity":
                pass
            elif p == "reverse":
                x.reverse()
            elif p == "rotate":
                if x:
                    x[:] = before[1:] + before[:1]
            elif p == "sortdesc":
                try:
                    x.sort(reverse=True)
                except TypeError:
                    x.sort(key=repr, reverse=True)
            elif p == "sortasc":
                try:
                    x.sort()
                except TypeError:
                    x.sort(key=repr)
            else:
                self.rng.shuffle(x)
        self._ev("shuffle", before if self.keep_log else None, list(x) if self.keep_log else None)

    def choice(self, seq):
        n = len(seq)
        if n == 0:
            raise IndexError("Cannot choose from an empty sequence")
        idx = self._next("choice")
        if idx is None:
            p = self.preset.get("choice")
            if p == "first":
                idx = 0
            elif p == "last":
                idx = n - 1
            else:
                idx = self.rng.randrange(n)
        else:
            idx = idx % n
        r = seq[idx]
        self._ev("choice", n, idx)
        return r

    def choices(self, population, weights=None, *, cum_weights=None, k=1):
        scripted = self._next("choices")
        if scripted is not None:
            res = [population[i % len(population)] for i in scripted][:k]
            while len(res) < k:
                res.append(population[0])
        else:
            res = self.rng.choices(population, weights=weights, cum_weights=cum_weights, k=k)
        if self.keep_log:
            w = list(weights) if weights is not None else None
            if w is None and cum_weights is not None:
                cw = list(cum_weights)
                w = [cw[0]] + [b - a for a, b in zip(cw, cw[1:])]
        self._ev("choices", (list(population), w, k) if self.keep_log else None, list(res) if self.keep_log else None)
        return res

    def random(self):
        v = self._next("random")
        if v is None and self.pending_random is not None:
            # a one-shot forced outcome armed by a monitor for the draw that belongs to the call it is watching
            v, self.pending_random = self.pending_random, None
            self.other["forced_random"] += 1
        if v is None:
            p = self.preset.get("random")
            if p == "zero":
                v = 0.0
            elif p == "one":
                v = 1.0 - 2.0 ** -53
            elif p == "alt":
                v = 0.0 if self.counts["random"] % 2 == 0 else 1.0 - 2.0 ** -53
            else:
                v = self.rng.random()
        self._ev("random", None, v)
        return v

    def randrange(self, start, stop=None, step=1):
        if stop is None:
            lo, hi = 0, start
        else:
            lo, hi = start, stop
        v = self._next("randrange")
        if v is None:
            p = self.preset.get("randrange")
            if p == "lo":
                v = lo
            elif p == "hi":
                v = hi - 1
            else:
                v = self.rng.randrange(lo, hi, step)
        else:
            v = lo + (v % max(1, hi - lo))
        self._ev("randrange", (lo, hi), v)
        return v

    def randint(self, a, b):
        return self.randrange(a, b + 1)

    def sample(self, population, k, **kw):
        r = self.rng.sample(population, k, **kw)
        self._ev("sample", len(population), None)
        return r

    def getrandbits(self, k):
        v = self.rng.getrandbits(k)
        self.other["getrandbits"] += 1
        self.recent_bits[v] = k
        if len(self.recent_bits) > 64:
            self.recent_bits.pop(next(iter(self.recent_bits)))
        return v

    def seed(self, a=None, *rest, **kw):
        """RNG provenance: code under test that re-seeds the random source it was given makes everything it draws afterwards a
        function of the seed value; the number of bits that value can carry (known when it was itself obtained from
        getrandbits(k), otherwise its bit length) is recorded for the monitors"""
        self.other["seed"] += 1
        bits = None
        if isinstance(a, int) and not isinstance(a, bool):
            bits = self.recent_bits.get(a, max(1, a.bit_length()))
        self.reseeds.append({"bits": bits, "from_getrandbits": isinstance(a, int) and a in self.recent_bits, "value_type": type(a).__name__})
        return self.rng.seed(a, *rest, **kw)

    def __getattr__(self, name):
        # anything else (uniform, gauss, getrandbits ...) is delegated, deterministic, and counted
        if name.startswith("__"):
            raise AttributeError(name)
        attr = getattr(self.rng, name)
        self.other[name] += 1
        return attr


def reseed_bits(tap):
    """None if the code under test never re-seeded the tap (or did so with a value of unknown width); otherwise the largest number
    of bits a seed value carried - everything drawn after such a call is a function of at most that many random bits"""
    if not tap.reseeds:
        return None
    known = [r["bits"] for r in tap.reseeds if r["bits"] is not None]
    if len(known) != len(tap.reseeds):
        return None
    return max(known)


_MODULES = {
    "fast": "gcmpy.gcm_algorithm.gcm_algorithm_fast",
    "custom": "gcmpy.gcm_algorithm.gcm_algorithm_custom_motifs",
    "jd": "gcmpy.joint_degree.joint_degree",
    "marginal": "gcmpy.joint_degree.joint_degree_loaders.joint_degree_marginal",
    "eecc": "gcmpy.covers.eecc",
    "mpcc": "gcmpy.covers.mpcc",
    "drawset": "gcmpy.tools.draw_set",
    "mcmc": "gcmpy.tools.markov_chain_monte_carlo_rewiring",
    "bond": "gcmpy.tools.bond_percolate",
    "network": "gcmpy.gcm_algorithm.gcm_algorithm_network",
    "algbase": "gcmpy.gcm_algorithm.gcm_algorithm",
    "factory": "gcmpy.gcm_algorithm.gcm_algorithm_factory",
    "main": "gcmpy.gcm_algorithm.gcm_algorithm_main",
}

_FN_NAMES = ("shuffle", "choice", "choices", "random", "randrange", "randint", "sample")


class installed:
    """Context manager: point the named gcmpy modules' randomness at `tap`.

    Handles `import random` (attribute `random` that is the stdlib module or an earlier tap),
    `from random import f` (attribute f that is a bound method of the stdlib's hidden
    Random instance or of an earlier tap), and `import random as rnd`-style aliases.
    Records which names were actually rebound so that a bypass is visible."""

    def __init__(self, tap, *keys):
        self.tap = tap
        self.keys = keys
        self.saved = []
        self.bound = Counter()

    def __enter__(self):
        for key in self.keys:
            mod = importlib.import_module(_MODULES.get(key, key))
            for name, val in list(vars(mod).items()):
                if val is _random or isinstance(val, RandomTap):
                    self.saved.append((mod, name, val))
                    setattr(mod, name, self.tap)
                    self.bound[key] += 1
                elif callable(val) and not isinstance(val, type) and (
                        getattr(val, "__self__", None) is getattr(_random, "_inst", object())
                        or isinstance(getattr(val, "__self__", None), RandomTap)):
                    self.saved.append((mod, name, val))
                    setattr(mod, name, getattr(self.tap, getattr(val, "__name__", name)))
                    self.bound[key] += 1
        return self

    def __exit__(self, *exc):
        for mod, name, val in reversed(self.saved):
            setattr(mod, name, val)
        self.saved = []
        return False
